#!/bin/bash
# runs every claimed check's thorough tier once (through vp run: false-alarm hunt at full scale; not evidence)
cd "$(dirname "$0")"
PROPS=$(python3 -c "import json;print(' '.join(c['property_id'] for c in json.load(open('MANIFEST.json'))['checks']))")
[ -n "${SWEEP_PROPS:-}" ] && PROPS="$SWEEP_PROPS"
for P in $PROPS; do
  OUT=$(./check $P thorough 2>&1); RC=$?
  echo "thorough $P rc=$RC $(echo "$OUT" | grep -E '^runs=' | cut -c1-200)"
  if [ $RC -ne 0 ]; then echo "$OUT" | grep -E "VIOLATION|violation candidate|minimised|harness" | cut -c1-1500; fi
done
echo THOROUGH-DONE
