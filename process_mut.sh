#!/bin/bash
# ./process_mut.sh <Cxx> [extra props...]  confirm + evaluate both mutants of /tmp/wt-<Cxx>; append to /tmp/mut_results.txt
P="$1"; shift; EXTRA="$@"
cd /verif
for M in MUTANT_A MUTANT_B; do
  D=/tmp/wt-$P/$M
  [ -f $D/patch.diff ] || { echo "$P $M MISSING" >> ${MUT_OUT:-/tmp/mut_results.txt}; continue; }
  C=$(./confirm_mut.sh /tmp/wt-$P $M 2>&1 | grep CONFIRM | tail -1)
  for Q in $P $EXTRA; do
    E=$(./evalmut.sh $D/patch.diff $Q 2>&1); RC=$(echo "$E" | grep -oE "EVAL prop=$Q rc=[0-9]+" | grep -oE "[0-9]+$")
    MON=$(echo "$E" | grep -oE "monitor=[A-Za-z0-9_.]+" | head -1)
    if [ "$RC" = "0" ]; then
      E=$(./evalmut.sh $D/patch.diff $Q 30000 2>&1); RC2=$(echo "$E" | grep -oE "EVAL prop=$Q rc=[0-9]+" | grep -oE "[0-9]+$"); MON=$(echo "$E" | grep -oE "monitor=[A-Za-z0-9_.]+" | head -1)
      echo "$P $M check=$Q quick=missed big30000=rc$RC2 $MON | $C" >> ${MUT_OUT:-/tmp/mut_results.txt}
    else
      echo "$P $M check=$Q quick=rc$RC $MON | $C" >> ${MUT_OUT:-/tmp/mut_results.txt}
    fi
  done
done
