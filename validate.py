#!/usr/bin/env python3
import json, jsonschema, glob, sys
m=json.load(open('/verif/MANIFEST.json')); s=json.load(open('/root/.vp/MANIFEST.schema.json')); jsonschema.validate(m,s); print("manifest ok")
es=json.load(open('/root/.vp/EVIDENCE.schema.json'))
for f in sorted(glob.glob('/verif/evidence/*.json')):
    e=json.load(open(f)); jsonschema.validate(e,es); print("ok", f, e['tier'], e['coverage']['evaluations'], e['coverage']['distinct_nontrivial'], e.get('violations'))
