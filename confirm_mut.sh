#!/bin/bash
# ./confirm_mut.sh <worktree> <MUTANT_X>  -> confirms: suite passes with the change, demo fails with it, demo passes without it
WT="$1"; M="$2"; D="$WT/$M"
export CARGO_NET_OFFLINE=true RUST_BACKTRACE=0
cd "$WT" || exit 2
git checkout -q -- contracts 2>/dev/null
DEMO_REL=$(grep -oE "contracts/[A-Za-z0-9_./-]+\.rs" "$D/demo_path.txt" | head -1)
[ -z "$DEMO_REL" ] && { echo "CONFIRM no demo path"; exit 2; }
TEST_NAME=$(basename "$DEMO_REL" .rs); CRATE=$(echo "$DEMO_REL" | cut -d/ -f2)
mkdir -p "$(dirname "$WT/$DEMO_REL")"; cp "$D/demo.rs" "$WT/$DEMO_REL"
# 1. demo passes without the change
cargo test --offline -p $CRATE --test $TEST_NAME > "$D/confirm_demo_clean.log" 2>&1; C1=$?
# 2. apply the change: the existing suite passes (demo excluded), demo fails
git apply "$D/patch.diff" || { echo "CONFIRM patch does not apply"; rm -f "$WT/$DEMO_REL"; exit 2; }
cargo test --offline -p $CRATE --test $TEST_NAME > "$D/confirm_demo_mut.log" 2>&1; C2=$?
rm -f "$WT/$DEMO_REL"
cargo test --workspace --no-fail-fast --offline > "$D/confirm_suite_mut.log" 2>&1; C3=$?
PASS=$(grep -E "^test result" "$D/confirm_suite_mut.log" | awk '{p+=$4; f+=$6} END{print p" passed "f" failed"}')
git checkout -q -- contracts
echo "CONFIRM $WT $M demo_clean_rc=$C1 demo_mut_rc=$C2 suite_mut_rc=$C3 ($PASS)"
[ $C1 = 0 ] && [ $C2 != 0 ] && [ $C3 = 0 ]
