#!/usr/bin/env python3
"""Regenerates MANIFEST.json from the table below (kept in one place so it is always valid)."""
import json, sys

CLAIMED = json.load(open('/verif/claims.json'))
ALL = [f"C{i:02d}" for i in range(1, 21)]

checks = []
for pid in ALL:
    if pid not in CLAIMED:
        continue
    c = CLAIMED[pid]
    checks.append({
        "property_id": pid,
        "quick_cmd": f"./check {pid} quick",
        "thorough_cmd": f"./check {pid} thorough",
        "evidence_file": f"/verif/evidence/{pid}.json",
        "replay_cmd_template": "./check replay {path}",
        "engine": "dexsim",
        "level_claimed": {"category": c["level"], "text": c["text"], "design_ref": c["design_ref"]},
        "level_note": c["note"],
        "technique": c["technique"],
    })
na = [{"property_id": p, "reason": "check not built yet in this round (planned, see DESIGN.md section 8); nothing is claimed for it"} for p in ALL if p not in CLAIMED]
m = {
    "version": 1,
    "setup_cmd": "cd /verif/sim && CARGO_NET_OFFLINE=true cargo build --release --offline",
    "hooks": {
        "guard": "mantra_dex_verif",
        "enable": "no source hooks are needed: every seam (storage, bank, token factory, wasm dispatch, clock) is a trait object the cw-multi-test host already injects; checks build /repo's crates as path dependencies of /verif/sim",
        "baseline_off_cmd": "cd /repo && cargo test --workspace --no-fail-fast --offline",
        "source_commits": [],
        "add_only": True,
    },
    "engines": [{
        "name": "dexsim",
        "path": "/verif/sim",
        "serves_properties": [c["property_id"] for c in checks],
        "kind_free_text": "deterministic simulation with fault injection: seeded scheduler over actors/messages/clock/faults, real contracts on a cw-multi-test host behind fault-injecting bank/token-factory/wasm seams, snapshot forks, explicit-step replay files, delta-debugging minimiser",
    }],
    "checks": checks,
    "notes": "Exit 0 held / 1 VIOLATION (replay file printed) / 2 harness error. VERIF_SEED selects the batch (default 20261002); VERIF_RUNS overrides the run count. Known findings: /verif/known_findings.json.",
}
if na:
    m["not_applicable"] = na
json.dump(m, open('/verif/MANIFEST.json', 'w'), indent=1)
print("claimed:", [c["property_id"] for c in checks])
