//! Exact arithmetic oracles (big integers / rationals), independent of the contracts' Uint/Decimal code.

use num_bigint::{BigInt, BigUint};
use num_integer::Integer;
use num_traits::{One, Signed, ToPrimitive, Zero};

/// exact non-negative rational
#[derive(Clone, Debug)]
pub struct Q {
    pub n: BigInt,
    pub d: BigInt,
}

impl Q {
    pub fn new(n: BigInt, d: BigInt) -> Q {
        assert!(!d.is_zero());
        let (mut n, mut d) = (n, d);
        if d.is_negative() {
            n = -n;
            d = -d;
        }
        let g = n.gcd(&d);
        if !g.is_zero() && !g.is_one() {
            n /= &g;
            d /= &g;
        }
        Q { n, d }
    }
    pub fn int(x: u128) -> Q {
        Q { n: BigInt::from(x), d: BigInt::one() }
    }
    pub fn ratio(a: u128, b: u128) -> Q {
        Q::new(BigInt::from(a), BigInt::from(b))
    }
    pub fn zero() -> Q {
        Q::int(0)
    }
    pub fn add(&self, o: &Q) -> Q {
        Q::new(&self.n * &o.d + &o.n * &self.d, &self.d * &o.d)
    }
    pub fn sub(&self, o: &Q) -> Q {
        Q::new(&self.n * &o.d - &o.n * &self.d, &self.d * &o.d)
    }
    pub fn mul(&self, o: &Q) -> Q {
        Q::new(&self.n * &o.n, &self.d * &o.d)
    }
    pub fn div(&self, o: &Q) -> Q {
        Q::new(&self.n * &o.d, &self.d * &o.n)
    }
    pub fn floor(&self) -> BigInt {
        self.n.div_floor(&self.d)
    }
    pub fn floor_u128(&self) -> u128 {
        self.floor().to_u128().unwrap_or(u128::MAX)
    }
    pub fn cmp(&self, o: &Q) -> std::cmp::Ordering {
        (&self.n * &o.d).cmp(&(&o.n * &self.d))
    }
    pub fn le(&self, o: &Q) -> bool {
        self.cmp(o) != std::cmp::Ordering::Greater
    }
    pub fn lt(&self, o: &Q) -> bool {
        self.cmp(o) == std::cmp::Ordering::Less
    }
    pub fn min(&self, o: &Q) -> Q {
        if self.le(o) {
            self.clone()
        } else {
            o.clone()
        }
    }
    pub fn max(&self, o: &Q) -> Q {
        if self.le(o) {
            o.clone()
        } else {
            self.clone()
        }
    }
    pub fn to_f64(&self) -> f64 {
        self.n.to_f64().unwrap_or(f64::NAN) / self.d.to_f64().unwrap_or(f64::NAN)
    }
    /// 18-digit decimal string -> rational
    pub fn from_decimal(dec: cosmwasm_std::Decimal) -> Q {
        Q::new(BigInt::from(dec.atomics().u128()), BigInt::from(10u128.pow(18)))
    }
}

pub const SECONDS_IN_DAY: u64 = 86_400;
pub const HALF_YEAR: u64 = 15_778_463;
pub const YEAR: u64 = 31_556_926;

/// The documented weight multiplier: the quadratic through (1 day, 1x), (half year, 5x),
/// (one year, 16x), as an exact rational (Lagrange form).
pub fn weight_multiplier(d: u64) -> Q {
    let xs = [SECONDS_IN_DAY as i128, HALF_YEAR as i128, YEAR as i128];
    let ys = [1i128, 5, 16];
    let mut acc = Q::zero();
    for i in 0..3 {
        let mut num = BigInt::from(ys[i]);
        let mut den = BigInt::one();
        for j in 0..3 {
            if i != j {
                num *= BigInt::from(d as i128 - xs[j]);
                den *= BigInt::from(xs[i] - xs[j]);
            }
        }
        acc = acc.add(&Q::new(num, den));
    }
    acc
}

/// weight the statement prescribes for (amount, duration): max(amount, amount x m(d)), as a rational
pub fn exact_weight(amount: u128, d: u64) -> Q {
    let w = Q::int(amount).mul(&weight_multiplier(d));
    w.max(&Q::int(amount))
}

pub fn isqrt(n: &BigUint) -> BigUint {
    n.sqrt()
}

pub fn big(x: u128) -> BigUint {
    BigUint::from(x)
}

#[cfg(test)]
mod tests {
    use super::*;
    #[test]
    fn anchors() {
        assert_eq!(weight_multiplier(SECONDS_IN_DAY).floor_u128(), 1);
        assert!(weight_multiplier(HALF_YEAR).cmp(&Q::int(5)) == std::cmp::Ordering::Equal);
        assert!(weight_multiplier(YEAR).cmp(&Q::int(16)) == std::cmp::Ordering::Equal);
    }
}

// ------------------------------------------------------------------------------------------------
// stableswap: exact invariant, in the contracts' own convention (Ann = amp * n):
//     Ann*S + D = Ann*D + D^(n+1) / (n^n * prod x)
// Amounts are normalised to the pool's highest precision as integers. Roots are bracketed by
// integer bisection at RES sub-unit resolution; comparisons are made at that resolution.

pub const RES_DIGITS: u32 = 9;

pub fn res() -> BigUint {
    BigUint::from(10u64).pow(RES_DIGITS)
}

pub struct Stable {
    pub ann: BigUint,
    pub n: u32,
    pub nn: BigUint,
}

impl Stable {
    pub fn new(amp: u64, n: usize) -> Stable {
        let n32 = n as u32;
        Stable { ann: BigUint::from(amp) * BigUint::from(n32), n: n32, nn: BigUint::from(n32).pow(n32) }
    }

    /// floor(D * RES) for balances xs (all > 0). h(D) = D^(n+1) + (Ann-1)*P*D - Ann*S*P, P = n^n prod x.
    pub fn d_scaled(&self, xs: &[BigUint]) -> Option<BigUint> {
        if xs.iter().any(|x| x.is_zero()) || xs.len() as u32 != self.n {
            return None;
        }
        let r = res();
        let s: BigUint = xs.iter().sum();
        let mut p = self.nn.clone();
        for x in xs {
            p *= x;
        }
        let n1 = self.n + 1;
        // scaled: d^(n+1) + (Ann-1) P d R^n  <=  Ann S P R^(n+1)
        let rn = r.pow(self.n);
        let lin = (&self.ann - BigUint::one()) * &p * &rn;
        let rhs = &self.ann * &s * &p * &rn * &r;
        let holds = |d: &BigUint| -> bool { d.pow(n1) + &lin * d <= rhs };
        let mut lo = BigUint::zero();
        let mut hi = &s * &r + BigUint::one();
        // D <= S always (equality when balanced); make sure hi is a strict upper bound
        while holds(&hi) {
            hi = &hi * 2u32;
        }
        while &hi - &lo > BigUint::one() {
            let mid = (&lo + &hi) >> 1;
            if holds(&mid) {
                lo = mid;
            } else {
                hi = mid;
            }
        }
        Some(lo)
    }

    /// smallest t with y = t/RES satisfying the invariant for the other balances `others`
    /// (the n-1 balances that are not the unknown one) and D = d_scaled / RES. Returns ceil(y*RES).
    pub fn y_scaled(&self, others: &[BigUint], d_scaled: &BigUint) -> Option<BigUint> {
        if others.iter().any(|x| x.is_zero()) || others.len() as u32 + 1 != self.n {
            return None;
        }
        let r = res();
        let sp: BigUint = others.iter().sum();
        let mut pp = self.nn.clone();
        for x in others {
            pp *= x;
        }
        let n = self.n;
        // F(t) = Ann*P'*t^2*R^(n-1) + (Ann*S'*R + d - Ann*d) * P' * t * R^(n-1) - d^(n+1) >= 0
        let rn1 = r.pow(n - 1);
        let a2 = &self.ann * &pp * &rn1;
        let lin_pos = (&self.ann * &sp * &r + d_scaled) * &pp * &rn1;
        let lin_neg = &self.ann * d_scaled * &pp * &rn1;
        let cst = d_scaled.pow(n + 1);
        let ok = |t: &BigUint| -> bool { &a2 * t * t + &lin_pos * t >= &lin_neg * t + &cst };
        let mut hi = d_scaled.clone() + BigUint::one();
        while !ok(&hi) {
            hi = &hi * 2u32;
        }
        let mut lo = BigUint::zero();
        while &hi - &lo > BigUint::one() {
            let mid = (&lo + &hi) >> 1;
            if ok(&mid) {
                hi = mid;
            } else {
                lo = mid;
            }
        }
        Some(hi)
    }
}

/// normalise pool amounts to the highest precision; None when a decimals value is unsupported
/// like `normalise`, for any decimals up to 36 (the exact solver has no 18-digit limit; the contract
/// does - a pool it cannot price must be refused, and if it does answer the answer is checked)
pub fn normalise_any(amounts: &[u128], decimals: &[u8]) -> Option<(Vec<BigUint>, u32)> {
    let mx = *decimals.iter().max()? as u32;
    if mx > 36 || amounts.len() != decimals.len() {
        return None;
    }
    let v = amounts
        .iter()
        .zip(decimals.iter())
        .map(|(a, d)| BigUint::from(*a) * BigUint::from(10u64).pow(mx - *d as u32))
        .collect();
    Some((v, mx))
}

pub fn normalise(amounts: &[u128], decimals: &[u8]) -> Option<(Vec<BigUint>, u32)> {
    let mx = *decimals.iter().max()? as u32;
    if mx > 18 || amounts.len() != decimals.len() {
        return None;
    }
    let v = amounts
        .iter()
        .zip(decimals.iter())
        .map(|(a, d)| BigUint::from(*a) * BigUint::from(10u64).pow(mx - *d as u32))
        .collect();
    Some((v, mx))
}

#[cfg(test)]
mod stable_tests {
    use super::*;
    #[test]
    fn balanced_d_is_sum() {
        let st = Stable::new(100, 3);
        let xs = vec![big(1_000_000), big(1_000_000), big(1_000_000)];
        let d = st.d_scaled(&xs).unwrap();
        assert_eq!(d, big(3_000_000) * res());
    }
    #[test]
    fn y_plugs_back() {
        let st = Stable::new(85, 2);
        let xs = vec![big(5_000_000_000), big(7_000_000_123)];
        let d = st.d_scaled(&xs).unwrap();
        // solving for the second balance given the first must give it back (within resolution)
        let y = st.y_scaled(&[xs[0].clone()], &d).unwrap();
        let want = &xs[1] * res();
        let diff = if y > want { &y - &want } else { &want - &y };
        assert!(diff <= big(1000), "diff {diff}");
        // a trade: add 1e9 to x0, y decreases, and D recomputed from the new balances is unchanged
        let x0 = &xs[0] + big(1_000_000_000);
        let y2 = st.y_scaled(&[x0.clone()], &d).unwrap();
        assert!(y2 < y);
        let y2_units = (&y2 + res() - BigUint::one()) / res();
        let d2 = st.d_scaled(&[x0, y2_units]).unwrap();
        assert!(d2 >= d);
        assert!(&d2 - &d < res() * 4u32);
    }
}
