//! Exact arithmetic oracles (big integers / rationals), independent of the contracts' Uint/Decimal code.

use num_bigint::{BigInt, BigUint};
use num_integer::Integer;
use num_traits::{One, Signed, ToPrimitive, Zero};

/// exact non-negative rational
#[derive(Clone, Debug)]
pub struct Q {
    pub n: BigInt,
    pub d: BigInt,
}

impl Q {
    pub fn new(n: BigInt, d: BigInt) -> Q {
        assert!(!d.is_zero());
        let (mut n, mut d) = (n, d);
        if d.is_negative() {
            n = -n;
            d = -d;
        }
        let g = n.gcd(&d);
        if !g.is_zero() && !g.is_one() {
            n /= &g;
            d /= &g;
        }
        Q { n, d }
    }
    pub fn int(x: u128) -> Q {
        Q { n: BigInt::from(x), d: BigInt::one() }
    }
    pub fn ratio(a: u128, b: u128) -> Q {
        Q::new(BigInt::from(a), BigInt::from(b))
    }
    pub fn zero() -> Q {
        Q::int(0)
    }
    pub fn add(&self, o: &Q) -> Q {
        Q::new(&self.n * &o.d + &o.n * &self.d, &self.d * &o.d)
    }
    pub fn sub(&self, o: &Q) -> Q {
        Q::new(&self.n * &o.d - &o.n * &self.d, &self.d * &o.d)
    }
    pub fn mul(&self, o: &Q) -> Q {
        Q::new(&self.n * &o.n, &self.d * &o.d)
    }
    pub fn div(&self, o: &Q) -> Q {
        Q::new(&self.n * &o.d, &self.d * &o.n)
    }
    pub fn floor(&self) -> BigInt {
        self.n.div_floor(&self.d)
    }
    pub fn floor_u128(&self) -> u128 {
        self.floor().to_u128().unwrap_or(u128::MAX)
    }
    pub fn cmp(&self, o: &Q) -> std::cmp::Ordering {
        (&self.n * &o.d).cmp(&(&o.n * &self.d))
    }
    pub fn le(&self, o: &Q) -> bool {
        self.cmp(o) != std::cmp::Ordering::Greater
    }
    pub fn lt(&self, o: &Q) -> bool {
        self.cmp(o) == std::cmp::Ordering::Less
    }
    pub fn min(&self, o: &Q) -> Q {
        if self.le(o) {
            self.clone()
        } else {
            o.clone()
        }
    }
    pub fn max(&self, o: &Q) -> Q {
        if self.le(o) {
            o.clone()
        } else {
            self.clone()
        }
    }
    pub fn to_f64(&self) -> f64 {
        self.n.to_f64().unwrap_or(f64::NAN) / self.d.to_f64().unwrap_or(f64::NAN)
    }
    /// 18-digit decimal string -> rational
    pub fn from_decimal(dec: cosmwasm_std::Decimal) -> Q {
        Q::new(BigInt::from(dec.atomics().u128()), BigInt::from(10u128.pow(18)))
    }
}

pub const SECONDS_IN_DAY: u64 = 86_400;
pub const HALF_YEAR: u64 = 15_778_463;
pub const YEAR: u64 = 31_556_926;

/// The documented weight multiplier: the quadratic through (1 day, 1x), (half year, 5x),
/// (one year, 16x), as an exact rational (Lagrange form).
pub fn weight_multiplier(d: u64) -> Q {
    let xs = [SECONDS_IN_DAY as i128, HALF_YEAR as i128, YEAR as i128];
    let ys = [1i128, 5, 16];
    let mut acc = Q::zero();
    for i in 0..3 {
        let mut num = BigInt::from(ys[i]);
        let mut den = BigInt::one();
        for j in 0..3 {
            if i != j {
                num *= BigInt::from(d as i128 - xs[j]);
                den *= BigInt::from(xs[i] - xs[j]);
            }
        }
        acc = acc.add(&Q::new(num, den));
    }
    acc
}

/// weight the statement prescribes for (amount, duration): max(amount, amount x m(d)), as a rational
pub fn exact_weight(amount: u128, d: u64) -> Q {
    let w = Q::int(amount).mul(&weight_multiplier(d));
    w.max(&Q::int(amount))
}

pub fn isqrt(n: &BigUint) -> BigUint {
    n.sqrt()
}

pub fn big(x: u128) -> BigUint {
    BigUint::from(x)
}

#[cfg(test)]
mod tests {
    use super::*;
    #[test]
    fn anchors() {
        assert_eq!(weight_multiplier(SECONDS_IN_DAY).floor_u128(), 1);
        assert!(weight_multiplier(HALF_YEAR).cmp(&Q::int(5)) == std::cmp::Ordering::Equal);
        assert!(weight_multiplier(YEAR).cmp(&Q::int(16)) == std::cmp::Ordering::Equal);
    }
}
