//! Exact arithmetic oracles (big integers), independent of the contracts' Uint/Decimal code.
