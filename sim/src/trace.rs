//! Replay files: an explicit list of steps. Replay executes the list verbatim and never consults
//! the PRNG, so any subsequence with smaller numbers is still a valid replay file.

use cosmwasm_std::Coin;
use serde::{Deserialize, Serialize};

use crate::seams::FaultSpec;
use crate::world::WorldCfg;

#[derive(Clone, Debug, Serialize, Deserialize, PartialEq)]
#[serde(rename_all = "snake_case")]
pub enum Op {
    Pm {
        sender: String,
        msg: mantra_dex_std::pool_manager::ExecuteMsg,
        funds: Vec<Coin>,
    },
    Fm {
        sender: String,
        msg: mantra_dex_std::farm_manager::ExecuteMsg,
        funds: Vec<Coin>,
    },
    Em {
        sender: String,
        msg: mantra_dex_std::epoch_manager::ExecuteMsg,
        funds: Vec<Coin>,
    },
    Fc {
        sender: String,
        which: u8,
        msg: mantra_dex_std::fee_collector::ExecuteMsg,
        funds: Vec<Coin>,
    },
    /// plain bank transfer between accounts (donations to contracts, user to user)
    Send {
        from: String,
        to: String,
        coins: Vec<Coin>,
    },
    /// persistent fault: while on, every bank send of `denom` to `recipient` fails
    Freeze {
        denom: String,
        recipient: String,
        on: bool,
    },
    /// sub-second part of the block time from now on
    Nanos {
        ns: u64,
    },
    /// C15: enumerate the complete (contract x privileged message x role x funds) matrix on forks
    Audit,
    /// C06: dry-run a claim for every user with an open position on a fork
    DryClaims,
    /// C18: probe the epoch manager at this instant (and a few derived ids)
    EpochProbe,
    /// instantiate a fresh epoch manager with this configuration and make it the probed one (C18)
    EpochNew {
        genesis: u64,
        duration: u64,
    },
    Noop,
}

#[derive(Clone, Debug, Serialize, Deserialize, PartialEq)]
pub struct Step {
    /// seconds the clock advances before this step
    pub dt: u64,
    pub op: Op,
    #[serde(default, skip_serializing_if = "Option::is_none")]
    pub fault: Option<FaultSpec>,
}

#[derive(Clone, Debug, Serialize, Deserialize)]
pub struct Trace {
    pub tool: String,
    pub property: String,
    pub seed: u64,
    #[serde(default)]
    pub monitor: String,
    #[serde(default)]
    pub detail: String,
    pub cfg: WorldCfg,
    pub steps: Vec<Step>,
}

impl Op {
    pub fn kind(&self) -> &'static str {
        use mantra_dex_std::farm_manager::ExecuteMsg as F;
        use mantra_dex_std::farm_manager::{FarmAction, PositionAction};
        use mantra_dex_std::pool_manager::ExecuteMsg as P;
        match self {
            Op::Pm { msg, funds, .. } => match msg {
                P::CreatePool { .. } => "pm.create_pool",
                P::ProvideLiquidity { unlocking_duration, .. } => {
                    let mut d: Vec<&str> = funds.iter().map(|c| c.denom.as_str()).collect();
                    d.sort();
                    d.dedup();
                    match (d.len() == 1, unlocking_duration.is_some()) {
                        (true, false) => "pm.provide_single",
                        (true, true) => "pm.provide_single_locked",
                        (false, false) => "pm.provide",
                        (false, true) => "pm.provide_locked",
                    }
                }
                P::Swap { .. } => "pm.swap",
                P::WithdrawLiquidity { .. } => "pm.withdraw",
                P::ExecuteSwapOperations { .. } => "pm.route",
                P::UpdateConfig { feature_toggle, .. } => {
                    if feature_toggle.is_some() {
                        "pm.toggle"
                    } else {
                        "pm.update_config"
                    }
                }
                P::UpdateOwnership(_) => "pm.ownership",
            },
            Op::Fm { msg, .. } => match msg {
                F::ManageFarm { action } => match action {
                    FarmAction::Create { .. } => "fm.farm_create",
                    FarmAction::Expand { .. } => "fm.farm_expand",
                    FarmAction::Close { .. } => "fm.farm_close",
                },
                F::ManagePosition { action } => match action {
                    PositionAction::Create { .. } => "fm.pos_create",
                    PositionAction::Expand { .. } => "fm.pos_expand",
                    PositionAction::Close { lp_asset, .. } => {
                        if lp_asset.is_some() {
                            "fm.pos_close_partial"
                        } else {
                            "fm.pos_close"
                        }
                    }
                    PositionAction::Withdraw { emergency_unlock, .. } => {
                        if emergency_unlock == &Some(true) {
                            "fm.pos_emergency"
                        } else {
                            "fm.pos_withdraw"
                        }
                    }
                },
                F::Claim { until_epoch } => {
                    if until_epoch.is_some() {
                        "fm.claim_until"
                    } else {
                        "fm.claim"
                    }
                }
                F::UpdateConfig { .. } => "fm.update_config",
                F::UpdateOwnership(_) => "fm.ownership",
            },
            Op::Em { msg, .. } => match msg {
                mantra_dex_std::epoch_manager::ExecuteMsg::UpdateConfig { .. } => "em.update_config",
                mantra_dex_std::epoch_manager::ExecuteMsg::UpdateOwnership(_) => "em.ownership",
            },
            Op::Fc { .. } => "fc.ownership",
            Op::Send { .. } => "bank.send",
            Op::Freeze { .. } => "fault.freeze",
            Op::Nanos { .. } => "clock.nanos",
            Op::Audit => "audit",
            Op::DryClaims => "dry_claims",
            Op::EpochProbe => "epoch_probe",
            Op::EpochNew { .. } => "epoch_new",
            Op::Noop => "noop",
        }
    }
    pub fn sender(&self) -> Option<&str> {
        match self {
            Op::Pm { sender, .. } | Op::Fm { sender, .. } | Op::Em { sender, .. } | Op::Fc { sender, .. } => {
                Some(sender)
            }
            Op::Send { from, .. } => Some(from),
            _ => None,
        }
    }
    pub fn funds(&self) -> &[Coin] {
        match self {
            Op::Pm { funds, .. } | Op::Fm { funds, .. } | Op::Em { funds, .. } | Op::Fc { funds, .. } => funds,
            Op::Send { coins, .. } => coins,
            _ => &[],
        }
    }
}
