//! One simulated run: world + monitors + statistics; applies steps one at a time.

use std::collections::{BTreeMap, BTreeSet};

use cosmwasm_std::{Addr, Coin};
use mantra_dex_std::farm_manager::{Farm, Position};
use mantra_dex_std::pool_manager::PoolInfoResponse;

use crate::seams::{set_frozen, get_frozen, FaultSpec, TxReport};
use crate::trace::{Op, Step};
use crate::world::{Balances, Snap, TxOut, World, WorldCfg};

#[derive(Clone, Debug)]
pub struct Violation {
    /// the specific monitor (e.g. "C01.backing"); the minimiser only accepts candidates that
    /// fire the same monitor
    pub monitor: String,
    pub detail: String,
    /// key of a known-finding matcher this violation satisfies, if any
    pub finding: Option<String>,
    /// false when the monitor keeps no model that a known defect could desynchronise
    pub truncate: bool,
}

pub type MResult = Result<(), Violation>;

pub fn viol(monitor: &str, detail: String) -> Violation {
    Violation { monitor: monitor.to_string(), detail, finding: None, truncate: true }
}

/// Full observable state (everything except the clock).
#[derive(Clone, Debug, Default)]
pub struct Obs {
    pub bal: Balances,
    pub pools: Vec<PoolInfoResponse>,
    pub farms: Vec<Farm>,
    pub positions: Vec<Position>,
    pub weights: BTreeMap<(String, String, u64), u128>,
    pub last_claimed: BTreeMap<String, u64>,
}

impl Obs {
    pub fn pool(&self, id: &str) -> Option<&PoolInfoResponse> {
        self.pools.iter().find(|p| p.pool_info.pool_identifier == id)
    }
    pub fn pool_by_lp(&self, lp: &str) -> Option<&PoolInfoResponse> {
        self.pools.iter().find(|p| p.pool_info.lp_denom == lp)
    }
    pub fn position(&self, id: &str) -> Option<&Position> {
        self.positions.iter().find(|p| p.identifier == id)
    }
    pub fn farm(&self, id: &str) -> Option<&Farm> {
        self.farms.iter().find(|p| p.identifier == id)
    }
}

#[derive(Clone, Debug, Default)]
pub struct Stats {
    pub c: BTreeMap<String, u64>,
    /// distinct abstract (state signature, op kind, outcome) transitions
    pub sigs: BTreeSet<u64>,
    pub steps: u64,
    pub accepted: u64,
    pub rejected: u64,
    pub sim_seconds: u64,
    pub forks: u64,
    pub fault_points: u64,
    pub known_hits: BTreeMap<String, u64>,
}

impl Stats {
    pub fn bump(&mut self, k: &str) {
        *self.c.entry(k.to_string()).or_insert(0) += 1;
    }
    pub fn add(&mut self, k: &str, n: u64) {
        *self.c.entry(k.to_string()).or_insert(0) += n;
    }
    pub fn sig(&mut self, parts: &[&str]) {
        let mut h: u64 = 0xcbf29ce484222325;
        for p in parts {
            for b in p.bytes() {
                h ^= b as u64;
                h = h.wrapping_mul(0x100000001b3);
            }
            h ^= 0xff;
            h = h.wrapping_mul(0x100000001b3);
        }
        self.sigs.insert(h);
    }
    pub fn merge(&mut self, o: &Stats) {
        for (k, v) in o.c.iter() {
            *self.c.entry(k.clone()).or_insert(0) += v;
        }
        for s in o.sigs.iter() {
            self.sigs.insert(*s);
        }
        self.steps += o.steps;
        self.accepted += o.accepted;
        self.rejected += o.rejected;
        self.sim_seconds += o.sim_seconds;
        self.forks += o.forks;
        self.fault_points += o.fault_points;
        for (k, v) in o.known_hits.iter() {
            *self.known_hits.entry(k.clone()).or_insert(0) += v;
        }
    }
}

pub struct SimCore {
    pub w: World,
    pub obs: Obs,
    pub stats: Stats,
    pub step_no: usize,
    /// rolling digest of (step, outcome, storage) used by the determinism self-check
    pub digest: u64,
    /// the epoch manager probed by C18 steps (defaults to the system one)
    pub probe_em: Addr,
    /// set by a monitor when its reference model can no longer follow the contract because of a
    /// known finding; the run stops after this step
    pub truncate: bool,
}

pub trait Monitor {
    fn pre(&mut self, _c: &mut SimCore, _step: &Step, _pre: &Obs) -> MResult {
        Ok(())
    }
    fn post(&mut self, c: &mut SimCore, step: &Step, pre: &Obs, out: &TxOut, post: &Obs) -> MResult;
}

pub struct Sim {
    pub core: SimCore,
    pub mons: Vec<Box<dyn Monitor>>,
    pub open_findings: BTreeSet<String>,
}

fn fnv(h: &mut u64, data: &[u8]) {
    for b in data {
        *h ^= *b as u64;
        *h = h.wrapping_mul(0x100000001b3);
    }
}

impl SimCore {
    pub fn observe(&self) -> Obs {
        Obs {
            bal: self.w.balances(),
            pools: self.w.pools(),
            farms: self.w.farms(),
            positions: self.w.positions(),
            weights: self.w.weights(),
            last_claimed: self.w.last_claimed(),
        }
    }
    pub fn storage_hash(&self) -> u64 {
        let mut h: u64 = 0xcbf29ce484222325;
        for (k, v) in self.w.app.storage().map.iter() {
            fnv(&mut h, k);
            fnv(&mut h, &[0xfe]);
            fnv(&mut h, v);
            fnv(&mut h, &[0xff]);
        }
        h
    }
    pub fn fork(&mut self) -> Snap {
        self.stats.forks += 1;
        self.w.snapshot()
    }
    pub fn addr_of(&self, op: &Op) -> Option<Addr> {
        match op {
            Op::Pm { .. } => Some(self.w.a.pm.clone()),
            Op::Fm { .. } => Some(self.w.a.fm.clone()),
            Op::Em { .. } => Some(self.w.a.em.clone()),
            Op::Fc { which, .. } => Some(if *which == 0 { self.w.a.fc.clone() } else { self.w.a.fc2.clone() }),
            _ => None,
        }
    }
    /// Execute the transaction part of an op (pseudo-ops do nothing here).
    pub fn exec_op(&mut self, op: &Op, fault: Option<FaultSpec>) -> TxOut {
        match op {
            Op::Pm { sender, msg, funds } => {
                let t = self.w.a.pm.clone();
                self.w.exec(&Addr::unchecked(sender), &t, msg, funds, fault)
            }
            Op::Fm { sender, msg, funds } => {
                let t = self.w.a.fm.clone();
                self.w.exec(&Addr::unchecked(sender), &t, msg, funds, fault)
            }
            Op::Em { sender, msg, funds } => {
                let t = self.w.a.em.clone();
                self.w.exec(&Addr::unchecked(sender), &t, msg, funds, fault)
            }
            Op::Fc { sender, which, msg, funds } => {
                let t = if *which == 0 { self.w.a.fc.clone() } else { self.w.a.fc2.clone() };
                self.w.exec(&Addr::unchecked(sender), &t, msg, funds, fault)
            }
            Op::Send { from, to, coins } => {
                self.w.bank_send(&Addr::unchecked(from), &Addr::unchecked(to), coins)
            }
            Op::Freeze { denom, recipient, on } => {
                let mut f = get_frozen();
                f.retain(|(d, r)| !(d == denom && r == recipient));
                if *on {
                    f.push((denom.clone(), recipient.clone()));
                }
                set_frozen(f);
                noop_out()
            }
            Op::EpochNew { genesis, duration } => {
                // code id 1 is the epoch manager (stored first in World::new)
                use cw_multi_test::Executor;
                let owner = self.w.a.owner.clone();
                let r = self.w.app.instantiate_contract(
                    1,
                    owner.clone(),
                    &mantra_dex_std::epoch_manager::InstantiateMsg {
                        owner: owner.to_string(),
                        epoch_config: mantra_dex_std::epoch_manager::EpochConfig {
                            duration: (*duration).into(),
                            genesis_epoch: (*genesis).into(),
                        },
                    },
                    &[],
                    "epoch manager (probe)",
                    None,
                );
                match r {
                    Ok(addr) => {
                        self.probe_em = addr;
                        noop_out()
                    }
                    Err(e) => TxOut { res: Err(e), report: empty_report() },
                }
            }
            Op::Nanos { ns } => {
                self.w.set_nanos(*ns);
                noop_out()
            }
            Op::Audit | Op::DryClaims | Op::EpochProbe | Op::Noop => noop_out(),
        }
    }
    pub fn user_name(&self, a: &str) -> String {
        self.w.a.name(a)
    }
}

pub fn empty_report() -> TxReport {
    TxReport { calls: vec![], fault_fired: 0, frozen_fired: 0, panics: 0 }
}
pub fn noop_out() -> TxOut {
    TxOut { res: Ok(cw_multi_test::AppResponse::default()), report: empty_report() }
}

impl Sim {
    pub fn new(cfg: &WorldCfg, mons: Vec<Box<dyn Monitor>>, open_findings: BTreeSet<String>) -> Sim {
        let w = World::new(cfg);
        let probe_em = w.a.em.clone();
        let mut core = SimCore {
            w,
            obs: Obs::default(),
            stats: Stats::default(),
            step_no: 0,
            digest: 0xcbf29ce484222325,
            probe_em,
            truncate: false,
        };
        core.obs = core.observe();
        Sim { core, mons, open_findings }
    }

    /// Apply one step. Err = a violation of the property under check that no open finding explains.
    pub fn apply(&mut self, step: &Step) -> MResult {
        let c = &mut self.core;
        c.w.advance(step.dt);
        c.stats.sim_seconds += step.dt;
        let pre = std::mem::take(&mut c.obs);
        let mut mons = std::mem::take(&mut self.mons);

        let mut result: MResult = Ok(());
        for m in mons.iter_mut() {
            if let Err(v) = m.pre(c, step, &pre) {
                result = Err(v);
                break;
            }
        }
        let mut post = pre.clone();
        if result.is_ok() {
            let out = c.exec_op(&step.op, step.fault.clone());
            post = c.observe();
            c.stats.steps += 1;
            if out.ok() {
                c.stats.accepted += 1;
            } else {
                c.stats.rejected += 1;
            }
            let kind = step.op.kind();
            c.stats.bump(&format!("op.{}.{}", kind, if out.ok() { "ok" } else { "rej" }));
            if !out.ok() && std::env::var("VERIF_DEBUG").is_ok() {
                let e = out.err_text();
                let short: String = e.rsplit(": ").next().unwrap_or("").chars().filter(|c| !c.is_ascii_digit()).take(70).collect();
                c.stats.bump(&format!("rej.{}.{}", kind, short));
            }
            if out.report.fault_fired > 0 {
                if let Some(f) = &step.fault {
                    c.stats.bump(&format!("fault.sampled.{}", f.kind.name()));
                }
            }
            if out.report.frozen_fired > 0 {
                c.stats.add("fault.sampled.denom_frozen", out.report.frozen_fired as u64);
            }
            if out.report.panics > 0 {
                c.stats.add("fault.contract_panic", out.report.panics as u64);
            }
            // determinism digest: outcome + storage, never error text or call order
            let sh = c.storage_hash();
            let mut h = c.digest;
            fnv(&mut h, &(c.step_no as u64).to_le_bytes());
            fnv(&mut h, &[out.ok() as u8]);
            fnv(&mut h, &sh.to_le_bytes());
            fnv(&mut h, &c.w.now().to_le_bytes());
            c.digest = h;

            for m in mons.iter_mut() {
                if let Err(v) = m.post(c, step, &pre, &out, &post) {
                    result = Err(v);
                    break;
                }
            }
        }
        c.obs = post;
        c.step_no += 1;
        self.mons = mons;

        match result {
            Ok(()) => Ok(()),
            Err(v) => {
                if let Some(k) = &v.finding {
                    if self.open_findings.contains(k) {
                        *self.core.stats.known_hits.entry(k.clone()).or_insert(0) += 1;
                        // the models may be out of sync with a state that a known defect produced
                        if v.truncate {
                            self.core.truncate = true;
                        }
                        return Ok(());
                    }
                }
                Err(v)
            }
        }
    }
}

pub fn coins_to_map(c: &[Coin]) -> BTreeMap<String, u128> {
    let mut m = BTreeMap::new();
    for x in c {
        *m.entry(x.denom.clone()).or_insert(0u128) += x.amount.u128();
    }
    m
}
