//! Own PRNG (SplitMix64 seeding xoshiro256**): replay never depends on an external crate's algorithm.

#[derive(Clone, Debug)]
pub struct Rng {
    s: [u64; 4],
}

pub fn splitmix(x: &mut u64) -> u64 {
    *x = x.wrapping_add(0x9E3779B97F4A7C15);
    let mut z = *x;
    z = (z ^ (z >> 30)).wrapping_mul(0xBF58476D1CE4E5B9);
    z = (z ^ (z >> 27)).wrapping_mul(0x94D049BB133111EB);
    z ^ (z >> 31)
}

/// Mix a batch seed, a property tag and a run index into one run seed.
pub fn mix(seed: u64, tag: &str, idx: u64) -> u64 {
    let mut x = seed ^ 0xA076_1D64_78BD_642F;
    for b in tag.bytes() {
        x = x.wrapping_mul(0x100_0000_01B3) ^ (b as u64);
    }
    let mut y = x.wrapping_add(idx.wrapping_mul(0x9E3779B97F4A7C15));
    let a = splitmix(&mut y);
    let b = splitmix(&mut y);
    a ^ b.rotate_left(17)
}

impl Rng {
    pub fn new(seed: u64) -> Self {
        let mut x = seed;
        let s = [splitmix(&mut x), splitmix(&mut x), splitmix(&mut x), splitmix(&mut x)];
        Rng { s }
    }
    pub fn next(&mut self) -> u64 {
        let r = self.s[1].wrapping_mul(5).rotate_left(7).wrapping_mul(9);
        let t = self.s[1] << 17;
        self.s[2] ^= self.s[0];
        self.s[3] ^= self.s[1];
        self.s[1] ^= self.s[2];
        self.s[0] ^= self.s[3];
        self.s[2] ^= t;
        self.s[3] = self.s[3].rotate_left(45);
        r
    }
    /// uniform in [0, n)
    pub fn below(&mut self, n: u64) -> u64 {
        if n == 0 {
            return 0;
        }
        // multiply-shift; bias is irrelevant here, determinism is what matters
        ((self.next() as u128 * n as u128) >> 64) as u64
    }
    pub fn range(&mut self, lo: u64, hi_incl: u64) -> u64 {
        if hi_incl <= lo {
            return lo;
        }
        let span = hi_incl - lo;
        if span == u64::MAX {
            return self.next();
        }
        lo + self.below(span + 1)
    }
    pub fn chance(&mut self, num: u64, den: u64) -> bool {
        self.below(den) < num
    }
    pub fn pick<'a, T>(&mut self, v: &'a [T]) -> &'a T {
        let i = self.below(v.len() as u64) as usize;
        &v[i]
    }
    pub fn pick_opt<'a, T>(&mut self, v: &'a [T]) -> Option<&'a T> {
        if v.is_empty() {
            None
        } else {
            Some(self.pick(v))
        }
    }
    pub fn weighted(&mut self, weights: &[u32]) -> usize {
        let total: u64 = weights.iter().map(|w| *w as u64).sum();
        if total == 0 {
            return 0;
        }
        let mut r = self.below(total);
        for (i, w) in weights.iter().enumerate() {
            if r < *w as u64 {
                return i;
            }
            r -= *w as u64;
        }
        weights.len() - 1
    }
    /// log-uniform u128 in [1, max]
    pub fn log_u128(&mut self, max: u128) -> u128 {
        if max <= 1 {
            return 1;
        }
        let bits = 128 - max.leading_zeros() as u64;
        let b = self.range(1, bits);
        let hi: u128 = if b >= 128 { u128::MAX } else { (1u128 << b) - 1 };
        let lo: u128 = 1u128 << (b - 1);
        let span = hi - lo;
        let r = ((self.next() as u128) << 64 | self.next() as u128) % (span + 1);
        (lo + r).min(max).max(1)
    }
    pub fn u128_below(&mut self, n: u128) -> u128 {
        if n == 0 {
            return 0;
        }
        (((self.next() as u128) << 64) | self.next() as u128) % n
    }
}
