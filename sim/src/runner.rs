//! Running, replaying, minimising and batching simulated runs.

use std::collections::BTreeSet;

use crate::gen::{gen_cfg, Gen};
use crate::mon::{monitors_for, profile_for};
use crate::rng::Rng;
use crate::sim::{Sim, Stats, Violation};
use crate::trace::{Op, Step, Trace};

pub const TOOL: &str = "dexsim-1";
pub const HARD_STEP_CAP: usize = 400;

pub struct RunResult {
    pub seed: u64,
    pub stats: Stats,
    pub digest: u64,
    pub nsteps: usize,
    pub violation: Option<(Violation, Trace)>,
    pub sample: Vec<String>,
}

pub fn run_one(prop: &str, seed: u64, findings: &BTreeSet<String>, want_sample: bool) -> RunResult {
    let prof = profile_for(prop);
    let mut rng = Rng::new(seed);
    let cfg = gen_cfg(&mut rng, &prof);
    let mut sim = Sim::new(&cfg, monitors_for(prop), findings.clone());
    let mut gen = Gen::new(rng, prof);
    let mut steps: Vec<Step> = vec![];
    let mut violation = None;
    while let Some(step) = gen.next_step(&mut sim.core) {
        steps.push(step.clone());
        if let Err(v) = sim.apply(&step) {
            violation = Some(v);
            break;
        }
        if sim.core.truncate || steps.len() >= HARD_STEP_CAP {
            break;
        }
    }
    let sample = if want_sample {
        steps
            .iter()
            .take(14)
            .map(|s| describe_step(&sim, s))
            .collect()
    } else {
        vec![]
    };
    let nsteps = steps.len();
    if want_sample {
        if let Ok(p) = std::env::var("VERIF_DUMP") {
            let t = Trace { tool: TOOL.to_string(), property: prop.to_string(), seed, monitor: String::new(), detail: String::new(), cfg: cfg.clone(), steps: steps.clone() };
            let _ = std::fs::write(p, serde_json::to_string(&t).unwrap());
        }
    }
    let violation = violation.map(|v| {
        let t = Trace {
            tool: TOOL.to_string(),
            property: prop.to_string(),
            seed,
            monitor: v.monitor.clone(),
            detail: v.detail.clone(),
            cfg: cfg.clone(),
            steps,
        };
        (v, t)
    });
    RunResult { seed, stats: sim.core.stats.clone(), digest: sim.core.digest, nsteps, violation, sample }
}

pub fn describe_step(sim: &Sim, s: &Step) -> String {
    let who = s.op.sender().map(|a| sim.core.user_name(a)).unwrap_or_default();
    let funds: Vec<String> = s.op.funds().iter().map(|c| c.to_string()).collect();
    format!(
        "+{}s {} {} [{}]{}",
        s.dt,
        who,
        s.op.kind(),
        funds.join(","),
        match &s.fault {
            Some(f) => format!(" FAULT {}#{}", f.kind.name(), f.nth),
            None => String::new(),
        }
    )
}

pub struct ReplayResult {
    pub violation: Option<Violation>,
    pub stats: Stats,
    pub digest: u64,
    pub failed_at: usize,
}

pub fn replay(trace: &Trace, findings: &BTreeSet<String>) -> ReplayResult {
    let mut sim = Sim::new(&trace.cfg, monitors_for(&trace.property), findings.clone());
    let mut violation = None;
    let mut failed_at = 0;
    let dbg = std::env::var("VERIF_DEBUG").is_ok();
    for (i, step) in trace.steps.iter().enumerate() {
        if dbg {
            // run the op once on a fork just to show its outcome
            let snap = sim.core.w.snapshot();
            sim.core.w.advance(step.dt);
            let o = sim.core.exec_op(&step.op, step.fault.clone());
            eprintln!("#{i} {} -> {} {}", describe_step(&sim, step), if o.ok() { "OK" } else { "REJ" }, o.err_text().replace('\n', " | "));
            if o.ok() {
                for (k, v) in o.attrs() {
                    eprintln!("      {k} = {v}");
                }
            }
            for cl in o.report.calls.iter() {
                eprintln!("      call {:?} {}", cl.kind, cl.sig);
            }
            sim.core.w.restore(&snap);
            if let Op::Pm { msg: mantra_dex_std::pool_manager::ExecuteMsg::ProvideLiquidity { pool_identifier, .. }, funds, .. } = &step.op {
                if funds.len() == 1 {
                    if let Some(p) = sim.core.obs.pool(pool_identifier) {
                        let other = p.pool_info.asset_denoms.iter().find(|d| **d != funds[0].denom).cloned().unwrap_or_default();
                        let half = cosmwasm_std::coin(funds[0].amount.u128() / 2, funds[0].denom.clone());
                        let q: Result<mantra_dex_std::pool_manager::SimulationResponse, _> = sim.core.w.app.wrap().query_wasm_smart(
                            sim.core.w.a.pm.to_string(),
                            &mantra_dex_std::pool_manager::QueryMsg::Simulation { offer_asset: half, ask_asset_denom: other, pool_identifier: pool_identifier.clone() },
                        );
                        eprintln!("      debug simulation of half: {:?}", q);
                    }
                }
            }
        }
        if let Err(v) = sim.apply(step) {
            violation = Some(v);
            failed_at = i;
            break;
        }
        if sim.core.truncate {
            break;
        }
    }
    ReplayResult { violation, stats: sim.core.stats.clone(), digest: sim.core.digest, failed_at }
}

fn fails_same(trace: &Trace, monitor: &str, findings: &BTreeSet<String>) -> Option<(Violation, usize)> {
    let r = replay(trace, findings);
    match r.violation {
        Some(v) if v.monitor == monitor => Some((v, r.failed_at)),
        _ => None,
    }
}

/// Delta-debugging over the step list, then simplification of the surviving steps. A candidate
/// is accepted only if the same monitor of the same property fires.
pub fn minimise(trace: &Trace, findings: &BTreeSet<String>) -> Trace {
    let monitor = trace.monitor.clone();
    let mut best = trace.clone();
    // cut everything after the failing step
    if let Some((_, at)) = fails_same(&best, &monitor, findings) {
        best.steps.truncate(at + 1);
    } else {
        return best; // not reproducible: the caller treats that as a harness error
    }
    let mut budget = 1500usize;
    // ddmin: remove chunks
    let mut chunk = (best.steps.len() / 2).max(1);
    while chunk >= 1 && budget > 0 {
        let mut i = 0;
        let mut removed_any = false;
        while i < best.steps.len() && budget > 0 {
            let end = (i + chunk).min(best.steps.len());
            if end - i == best.steps.len() {
                i += chunk;
                continue;
            }
            let mut cand = best.clone();
            // keep the clock: fold removed dt into the following step
            let dt_sum: u64 = cand.steps[i..end].iter().map(|s| s.dt).sum();
            cand.steps.drain(i..end);
            if i < cand.steps.len() {
                cand.steps[i].dt = cand.steps[i].dt.saturating_add(dt_sum);
            }
            budget -= 1;
            if let Some((_, at)) = fails_same(&cand, &monitor, findings) {
                cand.steps.truncate(at + 1);
                best = cand;
                removed_any = true;
            } else {
                i += chunk;
            }
        }
        if chunk == 1 && !removed_any {
            break;
        }
        if !removed_any {
            chunk /= 2;
        } else {
            chunk = chunk.min(best.steps.len().max(1));
            if chunk > 1 {
                chunk /= 2;
            }
        }
    }
    // simplify: drop faults, zero clock moves
    for i in 0..best.steps.len() {
        if budget == 0 {
            break;
        }
        if best.steps[i].fault.is_some() {
            let mut cand = best.clone();
            cand.steps[i].fault = None;
            budget -= 1;
            if fails_same(&cand, &monitor, findings).is_some() {
                best = cand;
            }
        }
        if best.steps[i].dt != 0 {
            let mut cand = best.clone();
            cand.steps[i].dt = 0;
            budget -= 1;
            if fails_same(&cand, &monitor, findings).is_some() {
                best = cand;
            }
        }
    }
    // shrink amounts: halve every coin of a step while the failure persists
    for i in 0..best.steps.len() {
        for _ in 0..6 {
            if budget == 0 {
                break;
            }
            let mut cand = best.clone();
            if !halve_funds(&mut cand.steps[i].op) {
                break;
            }
            budget -= 1;
            if fails_same(&cand, &monitor, findings).is_some() {
                best = cand;
            } else {
                break;
            }
        }
    }
    if let Some((v, _)) = fails_same(&best, &monitor, findings) {
        best.detail = v.detail;
    }
    best
}

fn halve_funds(op: &mut Op) -> bool {
    let f = match op {
        Op::Pm { funds, .. } | Op::Fm { funds, .. } | Op::Em { funds, .. } | Op::Fc { funds, .. } => funds,
        Op::Send { coins, .. } => coins,
        _ => return false,
    };
    let mut changed = false;
    for c in f.iter_mut() {
        if c.amount.u128() > 1 {
            c.amount = cosmwasm_std::Uint128::new(c.amount.u128() / 2);
            changed = true;
        }
    }
    changed
}
