//! Evidence files: what a check run actually covered.

use serde_json::json;

use crate::sim::Stats;

pub fn rule(prop: &str) -> String {
    let common = "Cases are whole simulated runs: a seeded scheduler (SplitMix64/xoshiro256**, seed = mix(VERIF_SEED, property, run index)) draws a world configuration (fees, epoch length, farm limits, users, balances) and then 25-110 steps (actor, message, arguments biased to the reached state, clock move, optional planted fault), executed against the real contracts on a cw-multi-test router behind fault-injecting bank / token-factory / wasm wrappers. evaluations = runs. distinct_nontrivial = number of distinct abstract transitions (operation kind, outcome, property-specific abstract state signature) reached by executed steps, counted as distinct 64-bit hashes; ";
    let specific = match prop {
        "C01" => "signature = (op kind, accepted/rejected, #pools, #funded pools).",
        "C02" => "signature = deposits: (pool type, #assets, first/later, single/subset/all assets, decimals vector); withdrawals: (pool type, log10 LP amount bucket, all/part of the holder's LP).",
        "C03" => "signature per hop = (pool type, #assets, decimals vector, zero-fee or not, reserve magnitude bucket).",
        "C04" => "signature per swap = (#hops, pool type, #extra fees, offer magnitude bucket, receiver self/other, burn fee charged or not).",
        "C05" => "signature = (op kind, outcome, #positions (capped), #farms (capped), some farm pays an LP token).",
        "C06" => "signature = claims: (#reward denoms paid, until/now, #farms); other steps: (op kind, #farms, #users with open positions).",
        "C07" => "signature per accepted claim = (until/now, #LP tokens of the claimant, #reward denoms paid, epochs spanned (capped)).",
        "C08" => "signature per position message = (op kind, outcome, sender relative to the position: owner/other/pool manager, position state: none/open/locked/unlock instant/unlocked, #positions changed, funds attached).",
        "C09" => "signature per emergency withdrawal = (open/closed, #active farm owners, penalty zero/positive, amount magnitude bucket, base penalty).",
        "C10" => "signature = (op kind, outcome, #(user, LP token) weight histories (capped), #LP tokens with positions done in pieces).",
        "C11" => "signature per farm message = (op kind, outcome, sender role or lifecycle phase of the farms closed: future/active/ended/expired, limit, fee zero/positive, fee denom same/other, #coins attached, refund frozen).",
        "C12" => "signature = direct: (pool type, #assets, offer magnitude bucket); reverse: (request magnitude bucket); route: (#hops).",
        "C13" => "signature per swap = (pool type, decimals vector, outcome).",
        "C14" => "signature per single-asset deposit = (pool type, outcome, odd/even, lock/no lock, receiver self/other, #internal calls).",
        "C15" => "signature per matrix cell = (message class, role class, funds attached, entitled or not, outcome) plus (ownership state audited, #farms, #positions).",
        "C16" => "signature = creates: (pool type, #assets, explicit/auto id, #fee denoms, #extra fees) or the vector of violated validation predicates; later steps: (op kind, #pools).",
        "C17" => "signature = blocked: (operation path, feature); free: (operation path, switch bits of the pools touched, outcome).",
        "C18" => "signature per probe = (before/after genesis, log2 duration bucket, log2 epoch id bucket, position relative to the epoch boundary: first second / second second / last second / middle).",
        "C19" => "signature per quote = (#assets, decimals vector, log10 amp, offer magnitude bucket, log10 reserve ratio offer/ask).",
        "C20" => "signature = (op kind, outcome, #internal calls of the clean execution).",
        _ => "signature = (op kind, accepted/rejected, property-specific state abstraction).",
    };
    format!("{common}{specific}")
}

pub fn assumptions() -> Vec<String> {
    vec![
        "real code: pool-manager, farm-manager, epoch-manager, fee-collector (instantiate/execute/query/reply compiled natively from /repo's working tree), mantra-dex-std, cosmwasm-std math, cw-storage-plus, cw-ownable".into(),
        "stubs: cw-multi-test 2.4 router/WasmKeeper (message routing, sub-message/reply semantics, per-message transactional cache), BankKeeper (no send hooks except the simulator's own 'denom frozen' fault), mantra-common-testing StargateMock (token factory), MockApiBech32 addresses; no wasm VM, no gas".into(),
        "a Rust panic inside a contract call is modelled as a VM trap of that one call (caught at the wasm seam, the caller sees a failed sub-message / query)".into(),
        "block time never decreases; several transactions may share one timestamp".into(),
        "owner configuration churn never makes a contract its own fee collector; the farm manager's pool_manager_addr and the epoch manager's genesis/duration are changed only in the C15/C18/C20 profiles".into(),
        "amounts stay below 2^127 per account and denom".into(),
        "HashSet/HashMap iteration order inside farm-manager (3 sites) is not controlled; it only permutes independent effects; digests exclude error text and call order; fault targets are addressed by content".into(),
        "a clean batch is evidence, not proof: schedules, faults and amounts are sampled".into(),
    ]
}

#[allow(clippy::too_many_arguments)]
pub fn write(
    prop: &str,
    tier: &str,
    seed: u64,
    runs: u64,
    steps: u64,
    st: &Stats,
    samples: Vec<serde_json::Value>,
    wall: f64,
    violations: u64,
    known_lines: &[String],
) {
    let root = std::env::var("VERIF_ROOT").unwrap_or_else(|_| "/verif".to_string());
    let dir = std::path::Path::new(&root).join("evidence");
    std::fs::create_dir_all(&dir).ok();
    let mut faults = serde_json::Map::new();
    let mut probes = serde_json::Map::new();
    let mut ops = serde_json::Map::new();
    let mut other = serde_json::Map::new();
    for (k, v) in st.c.iter() {
        if let Some(x) = k.strip_prefix("fault.") {
            faults.insert(x.to_string(), json!(v));
        } else if let Some(x) = k.strip_prefix("probe.") {
            probes.insert(x.to_string(), json!(v));
        } else if let Some(x) = k.strip_prefix("op.") {
            ops.insert(x.to_string(), json!(v));
        } else {
            other.insert(k.clone(), json!(v));
        }
    }
    let per_hour = if wall > 0.0 { (runs as f64 / wall * 3600.0) as u64 } else { 0 };
    let samples = if samples.is_empty() { vec![json!("no run executed")] } else { samples };
    let selfcheck: serde_json::Value = std::fs::read_to_string(std::path::Path::new(&root).join("selfcheck_result.json"))
        .ok()
        .and_then(|s| serde_json::from_str(&s).ok())
        .unwrap_or(json!("not run"));
    let ev = json!({
        "property_id": prop,
        "tier": tier,
        "seed": seed,
        "level": crate::mon::level(prop),
        "coverage": {
            "evaluations": runs.max(1),
            "distinct_nontrivial": (st.sigs.len() as u64).max(0),
            "rule": rule(prop),
            "samples": samples,
            "exhaustive": false,
            "steps_executed": steps,
            "accepted": st.accepted,
            "rejected": st.rejected,
            "runs_per_hour": per_hour,
            "seeds_per_hour": per_hour,
            "simulated_seconds": st.sim_seconds,
            "forks": st.forks,
            "fault_points_enumerated": st.fault_points,
            "faults_fired": faults,
            "probes": probes,
            "operations": ops,
            "counters": other,
            "known_finding_hits": st.known_hits,
            "known_finding_lines": known_lines,
            "determinism_selfcheck": selfcheck,
            "real_vs_stub": {
                "real": ["pool-manager", "farm-manager", "epoch-manager", "fee-collector", "mantra-dex-std", "cosmwasm-std", "cw-storage-plus", "cw-ownable", "cw-utils"],
                "stub": ["cw-multi-test router + WasmKeeper", "BankKeeper behind FaultyBank", "StargateMock behind FaultyStargate", "MockApiBech32", "SimStorage (BTreeMap)"],
                "not_modelled": ["wasm VM", "gas", "ante handlers", "real bank send hooks"]
            }
        },
        "assumptions": assumptions(),
        "wall_s": wall,
        "violations": violations
    });
    let path = dir.join(format!("{prop}.json"));
    std::fs::write(&path, serde_json::to_string_pretty(&ev).unwrap()).expect("write evidence");
}
