//! C10 — LP weights: the total covers the sum of users' weights; the weight curve is sane.

use std::collections::{BTreeMap, BTreeSet};

use mantra_dex_std::farm_manager::{ExecuteMsg as FmMsg, PositionAction};
use mantra_dex_std::pool_manager::ExecuteMsg as PmMsg;

use crate::exact::{exact_weight, Q};
use crate::sim::{viol, MResult, Monitor, Obs, SimCore};
use crate::trace::{Op, Step};
use crate::world::TxOut;

#[derive(Default)]
pub struct C10 {
    /// LP denoms in which some position was topped up or partially closed (pieces)
    pieces: BTreeSet<String>,
    /// observed (amount, duration, weight) of accepted creations, for monotonicity
    samples: Vec<(u128, u64, u128)>,
}

pub type Hist = BTreeMap<u64, u128>;

/// weight in effect at epoch e: the latest raw snapshot at or before e (zero before the first)
pub fn in_effect(h: &Hist, e: u64) -> u128 {
    h.range(..=e).next_back().map(|(_, w)| *w).unwrap_or(0)
}

/// (users' histories per denom, total history per denom)
pub fn split(o: &Obs, fm: &str) -> (BTreeMap<String, BTreeMap<String, Hist>>, BTreeMap<String, Hist>) {
    let mut users: BTreeMap<String, BTreeMap<String, Hist>> = BTreeMap::new();
    let mut total: BTreeMap<String, Hist> = BTreeMap::new();
    for ((a, d, e), w) in o.weights.iter() {
        if a == fm {
            total.entry(d.clone()).or_default().insert(*e, *w);
        } else {
            users.entry(d.clone()).or_default().entry(a.clone()).or_default().insert(*e, *w);
        }
    }
    (users, total)
}

impl Monitor for C10 {
    fn post(&mut self, c: &mut SimCore, step: &Step, pre: &Obs, out: &TxOut, post: &Obs) -> MResult {
        let fm = c.w.a.fm.to_string();
        let epoch = c.w.current_epoch();
        let (users, total) = split(post, &fm);
        let (users0, total0) = split(pre, &fm);
        // ---- the weight bookkeeping never stands in the way of a position operation: the floors of
        // pieces do not add up to the floor of the whole, so subtractions must not be checked ones
        if let Op::Fm { msg: FmMsg::ManagePosition { .. }, .. } = &step.op {
            if let Some(e) = super::util::internal_failure(out, step, pre) {
                return Err(viol("C10.weight_arithmetic_blocks_operation", format!("{} fails inside the contract: {e}", step.op.kind())));
            }
        }
        if c.step_no % 7 == 1 {
            super::util::derived_exits(c, post, "C10", 6)?;
        }
        // ---- pieces bookkeeping + curve checks on accepted operations
        if out.ok() {
            // positions that grew or appeared in this step: (owner, denom, added amount, duration, is_new)
            let mut grown: Vec<(String, String, u128, u64, bool)> = vec![];
            for q in post.positions.iter().filter(|q| q.open) {
                match pre.position(&q.identifier) {
                    None => grown.push((q.receiver.to_string(), q.lp_asset.denom.clone(), q.lp_asset.amount.u128(), q.unlocking_duration, true)),
                    Some(p) if q.lp_asset.amount > p.lp_asset.amount => {
                        grown.push((q.receiver.to_string(), q.lp_asset.denom.clone(), q.lp_asset.amount.u128() - p.lp_asset.amount.u128(), q.unlocking_duration, false))
                    }
                    _ => {}
                }
            }
            let is_pos_op = matches!(
                &step.op,
                Op::Fm { msg: FmMsg::ManagePosition { .. }, .. } | Op::Pm { msg: PmMsg::ProvideLiquidity { unlocking_duration: Some(_), .. }, .. }
            );
            if let Op::Fm { msg: FmMsg::ManagePosition { action: PositionAction::Close { identifier, lp_asset: Some(l) } }, .. } = &step.op {
                if let Some(p) = pre.position(identifier) {
                    if l.amount < p.lp_asset.amount {
                        self.pieces.insert(p.lp_asset.denom.clone());
                    }
                }
            }
            if grown.len() == 1 && is_pos_op {
                let (owner, denom, a, d, is_new) = grown[0].clone();
                if !is_new {
                    self.pieces.insert(denom.clone());
                }
                let latest = |m: &BTreeMap<String, BTreeMap<String, Hist>>| -> u128 {
                    m.get(&denom).and_then(|u| u.get(&owner)).and_then(|h| h.values().next_back().copied()).unwrap_or(0)
                };
                let w = latest(&users).saturating_sub(latest(&users0));
                // bounds of the statement
                if w < a || w > a.saturating_mul(16) {
                    return Err(viol("C10.weight_bounds", format!("adding {a} LP for {d}s gave weight {w}, outside [{a}, 16x{a}]")));
                }
                let want = exact_weight(a, d);
                let tol = a / 10u128.pow(12) + 1;
                let wf = want.floor_u128();
                if w > wf + tol || w + tol < wf {
                    return Err(viol("C10.weight_curve", format!("adding {a} LP for {d}s gave weight {w}; the documented quadratic gives {wf} (+-{tol})")));
                }
                if wf != a && Q::int(wf).cmp(&want) != std::cmp::Ordering::Equal {
                    c.stats.bump("probe.c10.fractional_multiplier_rounds");
                }
                if is_new {
                    for (a2, d2, w2) in self.samples.iter() {
                        if (*a2 <= a && *d2 <= d && *w2 > w) || (a <= *a2 && d <= *d2 && w > *w2) {
                            return Err(viol("C10.weight_monotone", format!("weight not monotone: ({a2},{d2})->{w2} vs ({a},{d})->{w}")));
                        }
                    }
                    if self.samples.len() < 40 {
                        self.samples.push((a, d, w));
                    }
                }
                // effective from the next epoch: what is in effect now did not move
                if let Some(e) = epoch {
                    let eff = |m: &BTreeMap<String, BTreeMap<String, Hist>>| m.get(&denom).and_then(|u| u.get(&owner)).map(|h| in_effect(h, e)).unwrap_or(0);
                    let tef = |m: &BTreeMap<String, Hist>| m.get(&denom).map(|h| in_effect(h, e)).unwrap_or(0);
                    // a user whose history was empty before has nothing in effect; otherwise unchanged
                    if eff(&users) != eff(&users0) || tef(&total) != tef(&total0) {
                        return Err(viol(
                            "C10.effective_immediately",
                            format!("weight in effect at the current epoch {e} changed with the operation: user {} -> {}, total {} -> {}", eff(&users0), eff(&users), tef(&total0), tef(&total)),
                        ));
                    }
                }
                c.stats.bump("probe.c10.curve_checked");
            }
        }
        // ---- total >= sum of users, for every epoch still claimable by someone
        for (denom, us) in users.iter() {
            let empty = Hist::new();
            let th = total.get(denom).unwrap_or(&empty);
            let mut epochs: BTreeSet<u64> = BTreeSet::new();
            let mut min_claimable = u64::MAX;
            for (u, h) in us.iter() {
                let first = *h.keys().next().unwrap();
                let start = match post.last_claimed.get(u) {
                    Some(l) => (l + 1).min(first.max(l + 1)),
                    None => first,
                };
                min_claimable = min_claimable.min(start);
                epochs.extend(h.keys().cloned());
            }
            epochs.extend(th.keys().cloned());
            if let Some(e) = epoch {
                epochs.insert(e);
                epochs.insert(e + 1);
            }
            epochs.insert(min_claimable);
            for e in epochs.into_iter().filter(|e| *e >= min_claimable) {
                let sum: u128 = us.values().map(|h| in_effect(h, e)).sum();
                let t = in_effect(th, e);
                if t < sum {
                    let mut v = viol(
                        "C10.total_below_users",
                        format!("LP {denom} epoch {e}: total weight {t} < sum of users' weights {sum} (after {} {})", step.op.kind(), if out.ok() { "ok" } else { "rejected" }),
                    );
                    // envelope S4: closing subtracts weight(whole) from a total built from weight(parts):
                    // the shortfall is a few units and the LP token has seen pieces
                    if self.pieces.contains(denom) && sum - t <= 64 {
                        v.finding = Some("S4-close-subtracts-weight-of-whole".into());
                    }
                    // envelope S1: a claim bounded by an until_epoch before a pending snapshot of the
                    // claimant rewrote the claimant's history
                    if let Op::Fm { msg: FmMsg::Claim { until_epoch: Some(u) }, .. } = &step.op {
                        if out.ok() && epoch.map(|e| *u < e).unwrap_or(false) {
                            v.finding = Some("S1-claim-until-rewrites-history".into());
                        }
                    }
                    return Err(v);
                }
            }
            // equality at the newest epoch while nothing was done in pieces
            if !self.pieces.contains(denom) {
                let sum: u128 = us.values().map(|h| *h.values().next_back().unwrap()).sum();
                let t = th.values().next_back().copied().unwrap_or(0);
                if t != sum {
                    return Err(viol("C10.total_not_equal", format!("LP {denom}: newest total {t} != sum of users' newest weights {sum} although no position was topped up or partially closed")));
                }
            }
        }
        // ---- a position's weight is at least its LP amount: a user's newest weight covers the
        // amounts of their open positions (small slack for the floors of partial closes / pieces)
        {
            let mut open_amt: BTreeMap<(String, String), u128> = BTreeMap::new();
            for p in post.positions.iter().filter(|p| p.open) {
                *open_amt.entry((p.lp_asset.denom.clone(), p.receiver.to_string())).or_insert(0) += p.lp_asset.amount.u128();
            }
            for ((denom, u), amt) in open_amt.iter() {
                let latest = users.get(denom).and_then(|m| m.get(u)).and_then(|h| h.values().next_back().copied()).unwrap_or(0);
                if latest + 16 < *amt {
                    return Err(viol(
                        "C10.weight_below_amount",
                        format!("{} holds open positions of {amt} in {denom} but their newest weight is {latest} (after {} {})", c.w.a.name(u), step.op.kind(), if out.ok() { "ok" } else { "rejected" }),
                    ));
                }
                if latest > amt.saturating_mul(16).saturating_add(16) {
                    return Err(viol("C10.weight_above_16x", format!("{} holds {amt} in {denom} but their newest weight is {latest} > 16x", c.w.a.name(u))));
                }
            }
        }
        // ---- a user without open positions in an LP token has no weight in it
        for (denom, us) in users.iter() {
            for (u, h) in us.iter() {
                let has_open = post.positions.iter().any(|p| p.open && p.receiver.as_str() == u && &p.lp_asset.denom == denom);
                let latest = *h.values().next_back().unwrap();
                if !has_open && latest != 0 {
                    return Err(viol("C10.weight_without_position", format!("{} has weight {latest} in {denom} without an open position", c.w.a.name(u))));
                }
            }
        }
        c.stats.sig(&[
            step.op.kind(),
            if out.ok() { "ok" } else { "rej" },
            &users.values().map(|u| u.len()).sum::<usize>().min(6).to_string(),
            &self.pieces.len().min(3).to_string(),
        ]);
        Ok(())
    }
}
