//! C04 — every swap conserves tokens and routes each fee to its destination.

use std::collections::BTreeMap;

use mantra_dex_std::pool_manager::{ExecuteMsg as PmMsg, SwapOperation};

use super::util::*;
use crate::sim::{coins_to_map, viol, MResult, Monitor, Obs, SimCore};
use crate::trace::{Op, Step};
use crate::world::TxOut;

#[derive(Default)]
pub struct C04;

struct Hop {
    pool: String,
    in_denom: String,
    in_amt: u128,
    out_denom: String,
    out_amt: u128,
    burn: u128,
    protocol: u128,
    swap: u128,
    extra: Option<u128>,
}

/// check the fee amounts of one hop against the pool's configured shares
fn check_fees(pre: &Obs, h: &Hop) -> Result<(), String> {
    let p = pre.pool(&h.pool).ok_or("pool missing in pre-state")?;
    let f = &p.pool_info.pool_fees;
    let known = h.out_amt + h.swap + h.protocol + h.burn;
    let ok_for = |g: u128| -> bool {
        let ex: u128 = f.extra_fees.iter().map(|e| fee_floor(g, e.share)).sum();
        if let Some(x) = h.extra {
            if x != ex {
                return false;
            }
        }
        g == known + ex
            && h.protocol == fee_floor(g, f.protocol_fee.share)
            && h.swap == fee_floor(g, f.swap_fee.share)
            && h.burn == fee_floor(g, f.burn_fee.share)
    };
    match h.extra {
        Some(x) => {
            let g = known + x;
            if ok_for(g) {
                Ok(())
            } else {
                Err(format!(
                    "gross {g}: fees swap={} protocol={} burn={} extra={} are not floor(gross x share) for shares {:?}",
                    h.swap, h.protocol, h.burn, x, f
                ))
            }
        }
        None => {
            // extra fees are not reported per hop: some gross must explain all reported numbers.
            // K = G - sum floor(G e_i)  =>  G in [(K-n)/(1-E), K/(1-E)], a window of < 4 units.
            use num_bigint::BigUint;
            let e_atomics: u128 = f.extra_fees.iter().map(|e| e.share.atomics().u128()).sum();
            let one = 10u128.pow(18);
            if e_atomics >= one {
                return Err("extra fees of 100% or more".into());
            }
            let g0 = u128::try_from(BigUint::from(known) * BigUint::from(one) / BigUint::from(one - e_atomics)).unwrap_or(u128::MAX);
            let lo = g0.saturating_sub(8).max(known);
            let hi = g0.saturating_add(3);
            let mut g = lo;
            while g <= hi {
                if ok_for(g) {
                    return Ok(());
                }
                g += 1;
            }
            // fall back to exact search from known upward for small numbers
            if f.extra_fees.is_empty() {
                return Err(format!("gross {known}: fees swap={} protocol={} burn={} are not floor(gross x share) for {:?}", h.swap, h.protocol, h.burn, f));
            }
            Err(format!("no gross output explains hop fees swap={} protocol={} burn={} out={} with {:?}", h.swap, h.protocol, h.burn, h.out_amt, f))
        }
    }
}

impl Monitor for C04 {
    fn post(&mut self, c: &mut SimCore, step: &Step, pre: &Obs, out: &TxOut, post: &Obs) -> MResult {
        let (sender, msg, funds) = match &step.op {
            Op::Pm { sender, msg, funds } => (sender, msg, funds),
            _ => return Ok(()),
        };
        if !out.ok() {
            return Ok(());
        }
        let pm = c.w.a.pm.to_string();
        let fc = c.w.pm_config().fee_collector_addr.to_string();
        let attrs = out.attrs();
        let get = |k: &str| -> Option<u128> { attrs.iter().find(|(a, _)| a == k).and_then(|(_, v)| v.parse().ok()) };
        let mut hops: Vec<Hop> = vec![];
        let receiver_opt: &Option<String>;
        match msg {
            PmMsg::Swap { ask_asset_denom, receiver, pool_identifier, .. } => {
                let m = coins_to_map(funds);
                if m.len() != 1 {
                    return Err(viol("C04.accepted_malformed", format!("swap accepted with funds {:?}", funds)));
                }
                let (od, oa) = m.iter().next().unwrap();
                receiver_opt = receiver;
                let ra = get("return_amount");
                let (sw, pr, bu, ex) = (get("swap_fee_amount"), get("protocol_fee_amount"), get("burn_fee_amount"), get("extra_fees_amount"));
                if ra.is_none() || sw.is_none() || pr.is_none() || bu.is_none() || ex.is_none() {
                    return Err(viol("C04.attributes", "swap response lacks amount attributes".into()));
                }
                if get("offer_amount") != Some(*oa) {
                    return Err(viol("C04.attributes", format!("offer_amount attribute {:?} != funds {}", get("offer_amount"), oa)));
                }
                hops.push(Hop {
                    pool: pool_identifier.clone(),
                    in_denom: od.clone(),
                    in_amt: *oa,
                    out_denom: ask_asset_denom.clone(),
                    out_amt: ra.unwrap(),
                    burn: bu.unwrap(),
                    protocol: pr.unwrap(),
                    swap: sw.unwrap(),
                    extra: ex,
                });
            }
            PmMsg::ExecuteSwapOperations { operations, receiver, .. } => {
                receiver_opt = receiver;
                let m = coins_to_map(funds);
                let swaps: Vec<&String> = attrs.iter().filter(|(k, _)| k == "swap").map(|(_, v)| v).collect();
                if swaps.len() != operations.len() {
                    return Err(viol("C04.attributes", format!("{} hops executed for {} operations", swaps.len(), operations.len())));
                }
                for (i, (s, op)) in swaps.iter().zip(operations.iter()).enumerate() {
                    let SwapOperation::MantraSwap { token_in_denom, token_out_denom, pool_identifier } = op;
                    let mut kv: BTreeMap<&str, (u128, String)> = BTreeMap::new();
                    for part in s.split(", ") {
                        if let Some((k, v)) = part.split_once('=') {
                            if let Some(cn) = parse_coin(v) {
                                kv.insert(k, cn);
                            }
                        }
                    }
                    let (Some(i_), Some(o_), Some(b_), Some(p_), Some(s_)) =
                        (kv.get("in"), kv.get("out"), kv.get("burn_fee"), kv.get("protocol_fee"), kv.get("swap_fee"))
                    else {
                        return Err(viol("C04.attributes", format!("cannot parse hop attribute {s}")));
                    };
                    if &i_.1 != token_in_denom || &o_.1 != token_out_denom {
                        return Err(viol("C04.route_chain", format!("hop {i} traded {}->{} but operation says {}->{}", i_.1, o_.1, token_in_denom, token_out_denom)));
                    }
                    // each hop consumes exactly the previous hop's output: same denom, same amount
                    if i > 0 && hops[i - 1].out_denom != i_.1 {
                        return Err(viol(
                            "C04.route_chain",
                            format!("hop {i} consumed {} but the previous hop produced {}", i_.1, hops[i - 1].out_denom),
                        ));
                    }
                    let expect_in = if i == 0 { m.get(token_in_denom).copied().unwrap_or(0) } else { hops[i - 1].out_amt };
                    if i_.0 != expect_in {
                        return Err(viol("C04.route_chain", format!("hop {i} consumed {} but previous output / offer was {}", i_.0, expect_in)));
                    }
                    hops.push(Hop {
                        pool: pool_identifier.clone(),
                        in_denom: i_.1.clone(),
                        in_amt: i_.0,
                        out_denom: o_.1.clone(),
                        out_amt: o_.0,
                        burn: b_.0,
                        protocol: p_.0,
                        swap: s_.0,
                        extra: None,
                    });
                }
                if m.len() != 1 {
                    return Err(viol("C04.accepted_malformed", format!("route accepted with funds {:?}", funds)));
                }
            }
            _ => return Ok(()),
        }
        if hops.is_empty() {
            return Err(viol("C04.accepted_malformed", "swap accepted without any hop".into()));
        }
        c.stats.bump(if hops.len() == 1 { "probe.c04.single_hop_checked" } else { "probe.c04.multi_hop_checked" });

        // ---- fees: configured share of the gross output rounded down
        // (route hops on a pool visited earlier in the same route see fees from the same config)
        for h in hops.iter() {
            if let Err(e) = check_fees(pre, h) {
                return Err(viol("C04.fee_amount", format!("pool {}: {}", h.pool, e)));
            }
        }

        // ---- reserves: offer added in full; ask reduced by exactly what leaves the contract
        let mut res_delta: BTreeMap<(String, String), i128> = BTreeMap::new();
        for h in hops.iter() {
            *res_delta.entry((h.pool.clone(), h.in_denom.clone())).or_insert(0) += si(h.in_amt);
            *res_delta.entry((h.pool.clone(), h.out_denom.clone())).or_insert(0) -= si(h.out_amt.saturating_add(h.protocol).saturating_add(h.burn));
        }
        for p in post.pools.iter() {
            let id = &p.pool_info.pool_identifier;
            let q = match pre.pool(id) {
                Some(q) => q,
                None => return Err(viol("C04.reserves", format!("pool {id} appeared during a swap"))),
            };
            for a in p.pool_info.assets.iter() {
                let before = si(reserve(q, &a.denom));
                let want = before + res_delta.get(&(id.clone(), a.denom.clone())).copied().unwrap_or(0);
                if si(a.amount.u128()) != want {
                    return Err(viol(
                        "C04.reserves",
                        format!("pool {id} reserve of {}: {} -> {}, expected {}", a.denom, before, a.amount, want),
                    ));
                }
            }
        }

        // ---- balances: receiver, fee collector, burn, pool manager; nobody else
        let recv = match receiver_opt {
            Some(r) if valid_addr(r) => r.clone(),
            _ => sender.clone(),
        };
        let first = &hops[0];
        let last = hops.last().unwrap();
        let mut exp: BTreeMap<(String, String), i128> = BTreeMap::new();
        add_delta(&mut exp, sender, &first.in_denom, -si(first.in_amt));
        add_delta(&mut exp, &pm, &first.in_denom, si(first.in_amt));
        add_delta(&mut exp, &pm, &last.out_denom, -si(last.out_amt));
        add_delta(&mut exp, &recv, &last.out_denom, si(last.out_amt));
        for h in hops.iter() {
            add_delta(&mut exp, &pm, &h.out_denom, -si(h.protocol.saturating_add(h.burn)));
            add_delta(&mut exp, &fc, &h.out_denom, si(h.protocol));
        }
        let got = deltas(&pre.bal, &post.bal);
        if got != exp {
            return Err(viol(
                "C04.balances",
                format!("balance deltas differ: got [{}] expected [{}]", fmt_deltas(&c.w.a, &got), fmt_deltas(&c.w.a, &exp)),
            ));
        }
        if hops.iter().any(|h| h.burn > 0) {
            c.stats.bump("probe.c04.burn_fee_nonzero");
        }
        if hops.iter().any(|h| h.protocol > 0) {
            c.stats.bump("probe.c04.protocol_fee_nonzero");
        }
        if recv != *sender {
            c.stats.bump("probe.c04.receiver_other");
        }
        let p0 = pre.pool(&first.pool).unwrap();
        c.stats.sig(&[
            "swap",
            &hops.len().to_string(),
            p0.pool_info.pool_type.get_label(),
            &p0.pool_info.pool_fees.extra_fees.len().to_string(),
            &(first.in_amt.max(1).ilog10() / 3).to_string(),
            if recv == *sender { "self" } else { "other" },
            if hops.iter().any(|h| h.burn > 0) { "burn" } else { "noburn" },
        ]);
        Ok(())
    }
}
