//! C20 — rejected or partially failing operations leave no trace.
//! For every executed message every internal call is failed in turn on a fork.

use std::collections::BTreeSet;

use mantra_dex_std::farm_manager::{ExecuteMsg as FmMsg, FarmAction};

use crate::seams::{CallKind, CallRec, FaultSpec};
use crate::sim::{viol, MResult, Monitor, Obs, SimCore};
use crate::trace::{Op, Step};
use crate::world::{Snap, TxOut};

#[derive(Default)]
pub struct C20 {
    snap: Option<Snap>,
}

const BANK_PREFIX: &[u8] = b"\x00\x04bank\x00\x08balances";

/// (recipient, denom, amount) of refunds this step may legitimately fail to deliver:
/// farms present before and gone after the clean execution of a farm close / create
fn tolerated_refunds(step: &Step, pre: &Obs, post: &Obs) -> Vec<(String, String, u128)> {
    let is_close_path = matches!(
        &step.op,
        Op::Fm { msg: FmMsg::ManageFarm { action: FarmAction::Close { .. } | FarmAction::Create { .. } }, .. }
    );
    if !is_close_path {
        return vec![];
    }
    pre.farms
        .iter()
        // gone, or replaced by a different farm under the same identifier in the same message
        .filter(|f| post.farm(&f.identifier).map(|g| g != *f).unwrap_or(true))
        .map(|f| {
            (
                f.owner.to_string(),
                f.farm_asset.denom.clone(),
                f.farm_asset.amount.u128().saturating_sub(f.claimed_amount.u128()),
            )
        })
        .filter(|(_, _, a)| *a > 0)
        .collect()
}

impl C20 {
    fn enumerate(&mut self, c: &mut SimCore, step: &Step, pre: &Obs, out: &TxOut, post: &Obs, pre_snap: &Snap) -> MResult {
        let fm = c.w.a.fm.to_string();
        let clean_post = c.w.snapshot();
        let tol = tolerated_refunds(step, pre, post);
        // distinct (kind, sig) with multiplicity -> fault points
        let mut seen: std::collections::BTreeMap<(CallKind, String), u32> = Default::default();
        let mut points: Vec<(CallRec, u32)> = vec![];
        for call in out.report.calls.iter() {
            let e = seen.entry((call.kind, call.sig.clone())).or_insert(0);
            points.push((call.clone(), *e));
            *e += 1;
        }
        let kind = step.op.kind();
        let mut result = Ok(());
        for (call, nth) in points.iter() {
            c.w.restore(pre_snap);
            c.stats.forks += 1;
            c.stats.fault_points += 1;
            c.stats.bump(&format!("fault.enumerated.{}", call.kind.name()));
            let spec = FaultSpec { kind: call.kind, sig: call.sig.clone(), nth: *nth };
            let o = c.exec_op(&step.op, Some(spec));
            if o.report.fault_fired == 0 {
                // the path changed before reaching the call (only possible through iteration-order
                // effects): nothing was injected, nothing to judge
                c.stats.bump("probe.c20.fault_not_reached");
                continue;
            }
            // is this the one tolerated failure?
            let tolerated = call.kind == CallKind::BankSend
                && tol.iter().any(|(to, d, a)| call.sig == format!("{}->{}:{}{}", fm, to, a, d));
            let ambiguous = tolerated && seen.get(&(call.kind, call.sig.clone())).copied().unwrap_or(0) > 1;
            if tolerated && !ambiguous {
                c.stats.bump("probe.c20.tolerated_refund_failure");
                if !o.ok() {
                    result = Err(viol(
                        "C20.refund_failure_blocks_close",
                        format!("{kind}: failing the refund transfer {} made the whole message fail: {}", call.sig, o.err_text()),
                    ));
                    break;
                }
                // post-state == clean post-state except that the refund stayed with the farm manager
                let (to, d, a) = tol.iter().find(|(to, d, a)| call.sig == format!("{}->{}:{}{}", fm, to, a, d)).unwrap().clone();
                let cur = &c.w.app.storage().map;
                let want = &clean_post.storage.map;
                let mut bad: Vec<String> = vec![];
                let keys: BTreeSet<&Vec<u8>> = cur.keys().chain(want.keys()).collect();
                for k in keys {
                    if cur.get(k) != want.get(k) {
                        let is_bank = k.starts_with(BANK_PREFIX);
                        let who = String::from_utf8_lossy(&k[BANK_PREFIX.len().min(k.len())..]).to_string();
                        if !(is_bank && (who == to || who == fm)) {
                            bad.push(String::from_utf8_lossy(k).to_string());
                        }
                    }
                }
                if !bad.is_empty() {
                    result = Err(viol(
                        "C20.refund_failure_side_effects",
                        format!("{kind}: with the refund {} failing, state differs from the clean outcome at keys {:?}", call.sig, bad),
                    ));
                    break;
                }
                let b = c.w.balances();
                let cb = &post.bal;
                let same_owner = to == fm;
                let ok_bal = if same_owner {
                    b == *cb
                } else {
                    crate::world::bal(&b, &to, &d) + a == crate::world::bal(cb, &to, &d)
                        && crate::world::bal(&b, &fm, &d) == crate::world::bal(cb, &fm, &d) + a
                };
                // every other denom of those two accounts must be as in the clean outcome
                let others_ok = [to.clone(), fm.clone()].iter().all(|acc| {
                    let m1 = b.get(acc).cloned().unwrap_or_default();
                    let m2 = cb.get(acc).cloned().unwrap_or_default();
                    let ks: BTreeSet<String> = m1.keys().chain(m2.keys()).cloned().collect();
                    let r = ks.iter().all(|k| k == &d || m1.get(k) == m2.get(k));
                    r
                });
                // when a persistent freeze already kept the refund from being delivered in the clean
                // execution, the faulted outcome simply equals the clean one
                let already_undelivered = out.report.frozen_fired > 0 && b == *cb;
                if !already_undelivered && (!ok_bal || !others_ok) {
                    result = Err(viol(
                        "C20.refund_failure_side_effects",
                        format!("{kind}: with the refund {} failing, balances of owner/farm manager are not clean-outcome -/+ refund", call.sig),
                    ));
                    break;
                }
                continue;
            }
            if ambiguous {
                c.stats.bump("probe.c20.ambiguous_refund_skipped");
                continue;
            }
            if o.ok() {
                if call.kind.is_query() {
                    // a failing query may legitimately steer the message down another accepted path
                    c.stats.bump("probe.c20.query_failure_absorbed");
                    continue;
                }
                result = Err(viol(
                    "C20.failure_swallowed",
                    format!("{kind}: internal call {} [{}] failed but the message was accepted", call.kind.name(), call.sig),
                ));
                break;
            }
            if !c.w.storage_eq(pre_snap) {
                result = Err(viol(
                    "C20.trace_after_fault",
                    format!(
                        "{kind}: rejected after failing {} [{}] yet state changed at {:?}",
                        call.kind.name(),
                        call.sig,
                        c.w.storage_diff(pre_snap)
                    ),
                ));
                break;
            }
        }
        c.w.restore(&clean_post);
        result
    }
}

impl Monitor for C20 {
    fn pre(&mut self, c: &mut SimCore, _step: &Step, _pre: &Obs) -> MResult {
        self.snap = Some(c.w.snapshot());
        Ok(())
    }
    fn post(&mut self, c: &mut SimCore, step: &Step, pre: &Obs, out: &TxOut, post: &Obs) -> MResult {
        let pre_snap = self.snap.take().expect("pre snapshot");
        let is_tx = matches!(step.op, Op::Pm { .. } | Op::Fm { .. } | Op::Em { .. } | Op::Fc { .. });
        if !is_tx {
            return Ok(());
        }
        let kind = step.op.kind();
        // (1) a rejected message leaves every contract's state and every balance as they were
        if !out.ok() {
            c.stats.bump("probe.c20.rejected_checked");
            if !c.w.storage_eq(&pre_snap) {
                return Err(viol(
                    "C20.trace_after_reject",
                    format!("{kind} rejected ({}) yet state changed at {:?}", out.err_text(), c.w.storage_diff(&pre_snap)),
                ));
            }
            if out.report.panics > 0 {
                c.stats.bump("probe.c20.panic_rejected_clean");
            }
        }
        // (2) every internal call of the clean execution failed in turn (only when the committed
        // execution itself carried no sampled fault: the recorded calls are then the clean ones)
        if step.fault.is_none() {
            c.stats.bump(&format!("c20.enumerated_msgs.{kind}"));
            self.enumerate(c, step, pre, out, post, &pre_snap)?;
        }
        c.stats.sig(&[kind, if out.ok() { "ok" } else { "rej" }, &out.report.calls.len().to_string()]);
        Ok(())
    }
}
