//! C07 — each user's reward is their weight share per epoch, however claims are scheduled.

use std::collections::BTreeMap;

use cosmwasm_std::Coin;
use mantra_dex_std::farm_manager::{ExecuteMsg as FmMsg, QueryMsg as FmQuery, RewardsResponse};
use mantra_dex_std::pool_manager::ExecuteMsg as PmMsg;

use super::c10::{in_effect, split, Hist};
use crate::exact::Q;
use crate::sim::{viol, MResult, Monitor, Obs, SimCore};
use crate::trace::{Op, Step};
use crate::world::{Snap, TxOut};

#[derive(Default)]
pub struct C07 {
    /// reference ledger: user weight per LP token as recorded at each accepted position operation,
    /// effective from the epoch after it
    uw: BTreeMap<(String, String), Hist>,
    /// last claimed epoch per user (cleared when the user has no open position left)
    cursor: BTreeMap<String, u64>,
    // per-step scratch
    quoted: Option<Result<BTreeMap<String, u128>, String>>,
    split_every: Option<Result<BTreeMap<String, u128>, String>>,
    split_mid: Option<Result<BTreeMap<String, u128>, String>>,
}

fn coins_map(v: &[Coin]) -> BTreeMap<String, u128> {
    let mut m = BTreeMap::new();
    for c in v {
        if !c.amount.is_zero() {
            *m.entry(c.denom.clone()).or_insert(0) += c.amount.u128();
        }
    }
    m
}

fn user_gain(c: &SimCore, user: &str, before: &crate::world::Balances) -> BTreeMap<String, u128> {
    let after = c.w.balances();
    let mut m = BTreeMap::new();
    let empty = BTreeMap::new();
    let a = after.get(user).unwrap_or(&empty);
    let b = before.get(user).unwrap_or(&empty);
    for (d, v) in a.iter() {
        let p = b.get(d).copied().unwrap_or(0);
        if *v > p {
            m.insert(d.clone(), v - p);
        }
    }
    m
}

impl C07 {
    fn claim_seq(c: &mut SimCore, snap: &Snap, user: &str, untils: &[u64]) -> Result<BTreeMap<String, u128>, String> {
        c.w.restore(snap);
        c.stats.forks += 1;
        let before = c.w.balances();
        for u in untils {
            let op = Op::Fm { sender: user.to_string(), msg: FmMsg::Claim { until_epoch: Some(*u) }, funds: vec![] };
            let o = c.exec_op(&op, None);
            if !o.ok() {
                let e = o.err_text();
                c.w.restore(snap);
                return Err(format!("claim until {u} rejected: {}", e.rsplit(": ").next().unwrap_or("")));
            }
        }
        let g = user_gain(c, user, &before);
        c.w.restore(snap);
        Ok(g)
    }
}

impl Monitor for C07 {
    fn pre(&mut self, c: &mut SimCore, step: &Step, pre: &Obs) -> MResult {
        self.quoted = None;
        self.split_every = None;
        self.split_mid = None;
        let (sender, until) = match &step.op {
            Op::Fm { sender, msg: FmMsg::Claim { until_epoch }, funds } if funds.is_empty() => (sender, until_epoch),
            _ => return Ok(()),
        };
        if step.fault.is_some() {
            return Ok(());
        }
        // Rewards query immediately before the claim
        let q: Result<RewardsResponse, _> = c.w.app.wrap().query_wasm_smart(
            c.w.a.fm.to_string(),
            &FmQuery::Rewards { address: sender.clone(), until_epoch: *until },
        );
        self.quoted = Some(match q {
            Ok(RewardsResponse::RewardsResponse { total_rewards, .. }) => Ok(coins_map(&total_rewards)),
            Ok(_) => Err("unexpected response variant".into()),
            Err(e) => Err(e.to_string()),
        });
        // alternative claim schedules over the same span, on forks
        let cur = match c.w.current_epoch() {
            Some(e) => e,
            None => return Ok(()),
        };
        let upto = until.unwrap_or(cur);
        if upto > cur {
            return Ok(());
        }
        let fm = c.w.a.fm.to_string();
        let (users, _) = split(pre, &fm);
        let lo = match pre.last_claimed.get(sender) {
            Some(l) => l + 1,
            None => {
                let firsts: Vec<u64> = users.values().filter_map(|u| u.get(sender)).filter_map(|h| h.keys().next().copied()).collect();
                match firsts.iter().min() {
                    Some(m) => *m,
                    None => return Ok(()),
                }
            }
        };
        if upto <= lo || !pre.positions.iter().any(|p| p.open && p.receiver.as_str() == sender) {
            return Ok(());
        }
        let snap = c.w.snapshot();
        let span = upto - lo + 1;
        let stride = span.div_ceil(10).max(1);
        let mut every: Vec<u64> = (lo..=upto).step_by(stride as usize).collect();
        if *every.last().unwrap() != upto {
            every.push(upto);
        }
        self.split_every = Some(Self::claim_seq(c, &snap, sender, &every));
        let mid = lo + (upto - lo) / 2;
        self.split_mid = Some(Self::claim_seq(c, &snap, sender, &[mid, upto]));
        c.stats.bump("probe.c07.split_schedules_run");
        Ok(())
    }

    fn post(&mut self, c: &mut SimCore, step: &Step, pre: &Obs, out: &TxOut, post: &Obs) -> MResult {
        let fm = c.w.a.fm.to_string();
        let epoch = c.w.current_epoch();
        // ---------------------------------------------------------------- claims
        if let Op::Fm { sender, msg: FmMsg::Claim { until_epoch }, .. } = &step.op {
            if out.ok() {
                let cur = epoch.unwrap_or(0);
                let upto = until_epoch.unwrap_or(cur);
                let empty = BTreeMap::new();
                let b0 = pre.bal.get(sender).unwrap_or(&empty);
                let b1 = post.bal.get(sender).unwrap_or(&empty);
                let mut paid: BTreeMap<String, u128> = BTreeMap::new();
                for (d, v) in b1.iter() {
                    let p = b0.get(d).copied().unwrap_or(0);
                    if *v > p {
                        paid.insert(d.clone(), v - p);
                    }
                }
                // ---- Rewards query == Claim
                if let Some(q) = self.quoted.take() {
                    match q {
                        Ok(m) => {
                            if m != paid {
                                return Err(viol("C07.query_vs_claim", format!("Rewards query reported {:?} but the immediate claim paid {:?}", m, paid)));
                            }
                        }
                        Err(e) => return Err(viol("C07.query_vs_claim", format!("Rewards query failed ({e}) but the immediate claim paid {:?}", paid))),
                    }
                    c.stats.bump("probe.c07.query_equals_claim");
                }
                // ---- schedule independence
                for (name, alt) in [("every-epoch", self.split_every.take()), ("two-halves", self.split_mid.take())] {
                    if let Some(alt) = alt {
                        match alt {
                            Ok(m) => {
                                if m != paid {
                                    return Err(viol("C07.schedule_dependent", format!("claiming once paid {:?}; the {name} schedule over the same span paid {:?}", paid, m)));
                                }
                                c.stats.bump("probe.c07.schedule_independent");
                            }
                            Err(e) => return Err(viol("C07.schedule_rejected", format!("single claim accepted but in the {name} schedule a {e}"))),
                        }
                    }
                }
                // ---- exact share bounds from the ledger
                let (_, totals) = split(pre, &fm);
                let start_cursor = self.cursor.get(sender).copied();
                let mut exact: BTreeMap<String, (u128, Q, u64)> = BTreeMap::new(); // denom -> (sum floors, sum fractions, N)
                let mut lp_denoms: Vec<String> = pre.positions.iter().filter(|p| p.open && p.receiver.as_str() == sender).map(|p| p.lp_asset.denom.clone()).collect();
                lp_denoms.sort();
                lp_denoms.dedup();
                if start_cursor != Some(upto) {
                    for d in lp_denoms.iter() {
                        let h = match self.uw.get(&(sender.clone(), d.clone())) {
                            Some(h) if !h.is_empty() => h,
                            _ => continue,
                        };
                        let start = match start_cursor {
                            Some(cu) => cu + 1,
                            None => *h.keys().next().unwrap(),
                        };
                        let empty_h = Hist::new();
                        let th = totals.get(d).unwrap_or(&empty_h);
                        for f in pre.farms.iter().filter(|f| &f.lp_denom == d && f.start_epoch <= upto) {
                            let lo = start.max(f.start_epoch);
                            let hi = upto.min(f.preliminary_end_epoch.saturating_sub(1));
                            let mut e = lo;
                            while e <= hi {
                                let uw = in_effect(h, e);
                                let tw_contract = in_effect(th, e);
                                // the total in effect can never be below the sum of the users' weights
                                // in effect (ledger), whatever the contract recorded
                                let sum_users: u128 = self
                                    .uw
                                    .iter()
                                    .filter(|((_, dd), _)| dd == d)
                                    .map(|(_, hh)| in_effect(hh, e))
                                    .sum();
                                let tw = if tw_contract > 0 { tw_contract.max(sum_users) } else { 0 };
                                if tw > tw_contract {
                                    c.stats.bump("probe.c07.contract_total_below_ledger_sum");
                                }
                                if tw > 0 && uw > 0 {
                                    let em = f.emission_rate.u128();
                                    let num = num_bigint::BigUint::from(em) * num_bigint::BigUint::from(uw);
                                    let den = num_bigint::BigUint::from(tw);
                                    let fl = u128::try_from(&num / &den).unwrap_or(u128::MAX);
                                    let rem = u128::try_from(&num % &den).unwrap_or(0);
                                    let ent = exact.entry(f.farm_asset.denom.clone()).or_insert((0, Q::zero(), 0));
                                    ent.0 += fl;
                                    if rem > 0 {
                                        ent.1 = ent.1.add(&Q::ratio(rem, tw));
                                    }
                                    if fl > 0 || rem > 0 {
                                        ent.2 += 1;
                                    }
                                }
                                e += 1;
                                if e - lo > 5000 {
                                    break;
                                }
                            }
                        }
                    }
                }
                let mut denoms: Vec<String> = paid.keys().chain(exact.keys()).cloned().collect();
                denoms.sort();
                denoms.dedup();
                for d in denoms {
                    let got = paid.get(&d).copied().unwrap_or(0);
                    let (fl, frac, n) = exact.get(&d).cloned().unwrap_or((0, Q::zero(), 0));
                    let upper = fl + frac.floor_u128();
                    if got > upper {
                        let mut v = viol(
                            "C07.overpaid",
                            format!("{} claimed until {upto}: paid {got}{d}, exact weight share {upper} (cursor {:?})", c.w.a.name(sender), start_cursor),
                        );
                        v.finding = None;
                        return Err(v);
                    }
                    // less by under one unit per farm-epoch: got > exact - N
                    let exact_sum = Q::int(fl).add(&frac);
                    if !(Q::int(got).add(&Q::int(n as u128))).cmp(&exact_sum).is_gt() && n > 0 {
                        let mut v = viol(
                            "C07.underpaid",
                            format!("{} claimed until {upto}: paid {got}{d}, exact weight share {} over {n} farm-epochs (cursor {:?})", c.w.a.name(sender), exact_sum.to_f64(), start_cursor),
                        );
                        // envelope S5: the user's cursor is older than the LP token's first total-weight snapshot
                        v.finding = Some("S5-first-epoch-of-later-lp-skipped".into());
                        return Err(v);
                    }
                    if got > 0 {
                        c.stats.bump("probe.c07.positive_reward_checked");
                    }
                }
                self.cursor.insert(sender.clone(), upto);
                c.stats.sig(&["claim", if until_epoch.is_some() { "until" } else { "now" }, &lp_denoms.len().to_string(), &paid.len().to_string(), &(upto.saturating_sub(start_cursor.unwrap_or(upto))).min(9).to_string()]);
            }
        }
        // ---------------------------------------------------------------- ledger update
        let is_pos_op = out.ok()
            && matches!(
                &step.op,
                Op::Fm { msg: FmMsg::ManagePosition { .. }, .. } | Op::Pm { msg: PmMsg::ProvideLiquidity { unlocking_duration: Some(_), .. }, .. }
            );
        if is_pos_op {
            let (users1, _) = split(post, &fm);
            let (users0, _) = split(pre, &fm);
            let e1 = epoch.map(|e| e + 1);
            // every (user, denom) whose newest raw snapshot changed or appeared
            for (d, us) in users1.iter() {
                for (u, h) in us.iter() {
                    let newest = h.iter().next_back().map(|(e, w)| (*e, *w));
                    let before = users0.get(d).and_then(|x| x.get(u)).and_then(|h| h.iter().next_back().map(|(e, w)| (*e, *w)));
                    if newest != before {
                        if let (Some((e, w)), Some(e1)) = (newest, e1) {
                            if e == e1 {
                                self.uw.entry((u.clone(), d.clone())).or_default().insert(e, w);
                            }
                        }
                    }
                }
            }
        }
        // the ledger follows the contract's own snapshots: make sure they at least cover the LP the
        // user has in open positions (a position's weight is never below its amount), otherwise the
        // share the user is paid is not "their weight" at all
        if is_pos_op {
            let mut open_amt: BTreeMap<(String, String), u128> = BTreeMap::new();
            for p in post.positions.iter().filter(|p| p.open) {
                *open_amt.entry((p.receiver.to_string(), p.lp_asset.denom.clone())).or_insert(0) += p.lp_asset.amount.u128();
            }
            for (k, amt) in open_amt.iter() {
                let newest = self.uw.get(k).and_then(|h| h.values().next_back().copied()).unwrap_or(0);
                if newest + 16 < *amt {
                    return Err(viol(
                        "C07.weight_not_credited",
                        format!("{} has {amt} LP of {} in open positions but a recorded weight of only {newest} after {}", c.w.a.name(&k.0), k.1, step.op.kind()),
                    ));
                }
            }
        }
        // users that left an LP token entirely lose their history there; no open position at all
        // clears the cursor (documented reconcile behaviour)
        let mut open_by: BTreeMap<String, Vec<String>> = BTreeMap::new();
        for p in post.positions.iter().filter(|p| p.open) {
            open_by.entry(p.receiver.to_string()).or_default().push(p.lp_asset.denom.clone());
        }
        self.uw.retain(|(u, d), _| open_by.get(u).map(|v| v.contains(d)).unwrap_or(false));
        self.cursor.retain(|u, _| open_by.contains_key(u));
        Ok(())
    }
}
