//! C05 — the farm manager always holds every locked LP token and every unclaimed reward.

use std::collections::BTreeMap;

use mantra_dex_std::farm_manager::{ExecuteMsg as FmMsg, FarmAction, PositionAction};

use crate::sim::{viol, MResult, Monitor, Obs, SimCore};
use crate::trace::{Op, Step};
use crate::world::{bal, TxOut};

#[derive(Default)]
pub struct C05;

pub fn obligations(o: &Obs) -> BTreeMap<String, u128> {
    let mut m: BTreeMap<String, u128> = BTreeMap::new();
    for p in o.positions.iter() {
        *m.entry(p.lp_asset.denom.clone()).or_insert(0) += p.lp_asset.amount.u128();
    }
    for f in o.farms.iter() {
        let rem = f.farm_asset.amount.u128().saturating_sub(f.claimed_amount.u128());
        *m.entry(f.farm_asset.denom.clone()).or_insert(0) += rem;
    }
    m
}

impl Monitor for C05 {
    fn post(&mut self, c: &mut SimCore, step: &Step, pre: &Obs, out: &TxOut, post: &Obs) -> MResult {
        let fm = c.w.a.fm.to_string();
        // "every position can be withdrawn at any time": an owner's exit that fails inside the
        // contract (arithmetic, one of its own queries) - in the run itself, and tried for every
        // position on forks at regular intervals
        if let Op::Fm { sender, msg: FmMsg::ManagePosition { action }, .. } = &step.op {
            let id = match action {
                PositionAction::Close { identifier, lp_asset: None } => Some(identifier),
                PositionAction::Withdraw { identifier, emergency_unlock: Some(true) } => Some(identifier),
                _ => None,
            };
            if let Some(p) = id.and_then(|i| pre.position(i)) {
                if p.receiver.as_str() == sender.as_str() {
                    if let Some(e) = super::util::internal_failure(out, step, pre) {
                        return Err(viol("C05.exit_blocked", format!("{} of position {} by its owner fails inside the contract: {e}", step.op.kind(), p.identifier)));
                    }
                }
            }
        }
        if matches!(step.op, Op::DryClaims) || c.step_no % 7 == 3 {
            super::util::derived_exits(c, post, "C05", 6)?;
        }
        // cross-check the raw reads against the public paginated queries: what users can see is
        // what the custody sum is taken over
        if c.step_no % 4 == 0 {
            match c.w.farms_via_query(2) {
                Ok(mut q) => {
                    let mut raw = post.farms.clone();
                    q.sort_by(|a, b| a.identifier.cmp(&b.identifier));
                    raw.sort_by(|a, b| a.identifier.cmp(&b.identifier));
                    if q != raw {
                        return Err(viol("C05.query_vs_storage", format!("Farms{{}} (paginated) lists {} farms, storage holds {}", q.len(), raw.len())));
                    }
                }
                Err(e) => return Err(viol("C05.query_vs_storage", format!("Farms{{}} query failed: {e}"))),
            }
            // the filtered farm listings (by LP token, by reward denom), in small pages as well
            if post.farms.len() >= 2 {
                use mantra_dex_std::farm_manager::FarmsBy;
                let pick = &post.farms[c.step_no % post.farms.len()];
                let lim = 1 + (c.step_no as u32 / 4) % 3;
                for (what, filter, want) in [
                    ("lp_denom", FarmsBy::LpDenom(pick.lp_denom.clone()), post.farms.iter().filter(|f| f.lp_denom == pick.lp_denom).cloned().collect::<Vec<_>>()),
                    ("farm_asset", FarmsBy::FarmAsset(pick.farm_asset.denom.clone()), post.farms.iter().filter(|f| f.farm_asset.denom == pick.farm_asset.denom).cloned().collect::<Vec<_>>()),
                ] {
                    match c.w.farms_via_query_by(Some(filter), lim) {
                        Ok(mut q) => {
                            let n = q.len();
                            let mut want = want;
                            q.sort_by(|a, b| a.identifier.cmp(&b.identifier));
                            want.sort_by(|a, b| a.identifier.cmp(&b.identifier));
                            if q != want {
                                return Err(viol("C05.query_vs_storage", format!("Farms{{by {what}}} read in pages of {lim} lists {n} farms {:?}, storage holds {:?}", q.iter().map(|f| &f.identifier).collect::<Vec<_>>(), want.iter().map(|f| &f.identifier).collect::<Vec<_>>())));
                            }
                        }
                        Err(e) => return Err(viol("C05.query_vs_storage", format!("Farms{{by {what}}} query failed: {e}"))),
                    }
                }
                c.stats.bump("probe.c05.filtered_farm_listing_paged");
            }
            let mut owners: Vec<String> = post.positions.iter().map(|p| p.receiver.to_string()).collect();
            owners.sort();
            owners.dedup();
            for o in owners {
                for open in [true, false] {
                    let mut raw: Vec<_> = post.positions.iter().filter(|p| p.receiver.as_str() == o && p.open == open).cloned().collect();
                    raw.sort_by(|a, b| a.identifier.cmp(&b.identifier));
                    match c.w.positions_via_query(&o, open) {
                        Ok(mut q) => {
                            q.sort_by(|a, b| a.identifier.cmp(&b.identifier));
                            // the query returns at most 10 per state; more than 10 cannot exist
                            if q != raw {
                                return Err(viol("C05.query_vs_storage", format!("Positions{{receiver {}, open {open}}} returns {} positions, storage holds {}", c.w.a.name(&o), q.len(), raw.len())));
                            }
                        }
                        Err(e) => return Err(viol("C05.query_vs_storage", format!("Positions query failed: {e}"))),
                    }
                }
            }
            // the unfiltered listing, and one receiver's listing, read in small pages with `start_after`
            if post.positions.len() >= 2 {
                let lim = 1 + (c.step_no as u32 / 4) % 3;
                let ids = |v: &[mantra_dex_std::farm_manager::Position]| v.iter().map(|p| p.identifier.clone()).collect::<Vec<_>>();
                let mut raw = post.positions.clone();
                raw.sort_by(|a, b| a.identifier.cmp(&b.identifier));
                match c.w.positions_listing_via_query(None, lim) {
                    Ok(q) => {
                        if q != raw {
                            return Err(viol("C05.query_vs_storage", format!("Positions{{}} read in pages of {lim} lists {:?}, storage holds {:?}: custody summed over the listing is not the custody held", ids(&q), ids(&raw))));
                        }
                    }
                    Err(e) => return Err(viol("C05.query_vs_storage", format!("Positions{{}} query failed: {e}"))),
                }
                if let Some(o) = post.positions.get(c.step_no % post.positions.len()).map(|p| p.receiver.to_string()) {
                    let mut mine: Vec<_> = raw.iter().filter(|p| p.receiver.as_str() == o).cloned().collect();
                    match c.w.positions_listing_via_query(Some(mantra_dex_std::farm_manager::PositionsBy::Receiver(o.clone())), lim) {
                        Ok(mut q) => {
                            let dup = q.len() != q.iter().map(|p| &p.identifier).collect::<std::collections::BTreeSet<_>>().len();
                            q.sort_by(|a, b| a.identifier.cmp(&b.identifier));
                            mine.sort_by(|a, b| a.identifier.cmp(&b.identifier));
                            if q != mine || dup {
                                return Err(viol("C05.query_vs_storage", format!("Positions{{receiver {}}} read in pages of {lim} lists {:?}, storage holds {:?}", c.w.a.name(&o), ids(&q), ids(&mine))));
                            }
                        }
                        Err(e) => return Err(viol("C05.query_vs_storage", format!("Positions query failed: {e}"))),
                    }
                }
                c.stats.bump("probe.c05.position_listing_paged");
            }
            c.stats.bump("probe.c05.queries_cross_checked");
        }
        let owe = obligations(post);
        for (d, need) in owe.iter() {
            let have = bal(&post.bal, &fm, d);
            if have < *need {
                return Err(viol(
                    "C05.custody",
                    format!(
                        "denom {d}: farm manager holds {have} < positions + unclaimed farm budgets {need} (after {} {})",
                        step.op.kind(),
                        if out.ok() { "ok" } else { "rejected" }
                    ),
                ));
            }
        }
        for f in post.farms.iter() {
            if f.claimed_amount > f.farm_asset.amount {
                return Err(viol("C05.overclaimed", format!("farm {} claimed {} > funded {}", f.identifier, f.claimed_amount, f.farm_asset.amount)));
            }
        }
        // ---- availability: "every position can be withdrawn in full and every farm's remainder
        // refunded at any time, in any order" (no planted fault, nothing attached)
        let no_fault = step.fault.is_none() && out.report.frozen_fired == 0;
        if let Op::Fm { sender, msg, funds } = &step.op {
            if no_fault && funds.is_empty() && !out.ok() {
                match msg {
                    FmMsg::ManagePosition { action: PositionAction::Withdraw { identifier, emergency_unlock } } => {
                        if let Some(p) = pre.position(identifier) {
                            let unlocked = !p.open && p.expiring_at.map(|e| e <= c.w.now()).unwrap_or(false);
                            if p.receiver.as_str() == sender && unlocked {
                                return Err(viol(
                                    "C05.withdraw_blocked",
                                    format!("owner's withdrawal of unlocked position {identifier} (emergency={:?}) rejected: {}", emergency_unlock, out.err_text()),
                                ));
                            }
                        }
                    }
                    FmMsg::ManageFarm { action: FarmAction::Close { farm_identifier } } => {
                        if let Some(f) = pre.farm(farm_identifier) {
                            if f.owner.as_str() == sender {
                                return Err(viol("C05.farm_close_blocked", format!("owner's close of farm {farm_identifier} rejected: {}", out.err_text())));
                            }
                        }
                    }
                    _ => {}
                }
            }
        }
        if pre.positions.len() + pre.farms.len() > 0 && post.positions.is_empty() && post.farms.is_empty() {
            c.stats.bump("probe.c05.fully_drained");
        }
        let reward_is_lp = post.farms.iter().any(|f| f.farm_asset.denom.starts_with("factory/"));
        if reward_is_lp {
            c.stats.bump("probe.c05.farm_paying_lp_token");
        }
        c.stats.sig(&[
            step.op.kind(),
            if out.ok() { "ok" } else { "rej" },
            &post.positions.len().min(6).to_string(),
            &post.farms.len().min(4).to_string(),
            if reward_is_lp { "lpreward" } else { "-" },
        ]);
        Ok(())
    }
}
