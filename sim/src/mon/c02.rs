//! C02 — deposits and withdrawals never dilute other liquidity providers.

use std::collections::BTreeMap;

use mantra_dex_std::pool_manager::{ExecuteMsg as PmMsg, PoolInfo, PoolType};
use num_bigint::BigUint;
use num_traits::Zero;

use super::c01::locked_min;
use crate::exact::{normalise, res, Stable};
use crate::sim::{coins_to_map, viol, MResult, Monitor, Obs, SimCore};
use crate::trace::{Op, Step};
use crate::world::{bal, supply, TxOut};

#[derive(Default)]
pub struct C02;

fn order(pool: &PoolInfo) -> Vec<u128> {
    pool.asset_denoms
        .iter()
        .map(|d| pool.assets.iter().find(|a| &a.denom == d).map(|a| a.amount.u128()).unwrap_or(0))
        .collect()
}

fn big(x: u128) -> BigUint {
    BigUint::from(x)
}

/// floor(D * RES) of a pool state, None if unsupported / empty
fn d_of(pool: &PoolInfo, rs: &[u128]) -> Option<BigUint> {
    if let PoolType::StableSwap { amp } = pool.pool_type {
        let (xs, _) = normalise(rs, &pool.asset_decimals)?;
        return Stable::new(amp, rs.len()).d_scaled(&xs);
    }
    None
}

impl Monitor for C02 {
    fn post(&mut self, c: &mut SimCore, step: &Step, pre: &Obs, out: &TxOut, post: &Obs) -> MResult {
        let pm = c.w.a.pm.to_string();
        // ---- LP supply moves only on deposits and withdrawals of that pool
        let touched: Option<&String> = match &step.op {
            Op::Pm { msg: PmMsg::ProvideLiquidity { pool_identifier, .. }, .. } | Op::Pm { msg: PmMsg::WithdrawLiquidity { pool_identifier }, .. } if out.ok() => {
                Some(pool_identifier)
            }
            _ => None,
        };
        for p in post.pools.iter() {
            let lp = &p.pool_info.lp_denom;
            let s1 = supply(&post.bal, lp);
            let s0 = supply(&pre.bal, lp);
            // an LP token that is itself an asset of another pool can be burned by that pool's burn
            // fee: the trader's own proceeds, never a dilution (value per LP only rises)
            let burned_as_fee = s1 < s0
                && out.ok()
                && post.pools.iter().any(|q| q.pool_info.asset_denoms.contains(lp) && !q.pool_info.pool_fees.burn_fee.share.is_zero());
            if burned_as_fee {
                c.stats.bump("probe.c02.lp_burned_as_swap_fee");
            }
            if s1 != s0 && touched != Some(&p.pool_info.pool_identifier) && !burned_as_fee {
                return Err(viol("C02.supply_changed_elsewhere", format!("supply of {lp} {s0} -> {s1} during {} ({})", step.op.kind(), if out.ok() { "ok" } else { "rejected" })));
            }
            if s1 > 0 && s1 < locked_min(&p.pool_info) {
                return Err(viol("C02.supply_below_locked_minimum", format!("supply of {lp} is {s1} < locked minimum {}", locked_min(&p.pool_info))));
            }
        }
        let (sender, msg, funds) = match &step.op {
            Op::Pm { sender, msg, funds } => (sender, msg, funds),
            _ => return Ok(()),
        };
        match msg {
            PmMsg::ProvideLiquidity { pool_identifier, .. } => {
                if !out.ok() {
                    return Ok(());
                }
                let (Some(p0), Some(p1)) = (pre.pool(pool_identifier), post.pool(pool_identifier)) else {
                    return Ok(());
                };
                let pi = &p0.pool_info;
                let lp = &pi.lp_denom;
                let (s0, s1) = (supply(&pre.bal, lp), supply(&post.bal, lp));
                if s1 < s0 {
                    return Err(viol("C02.deposit_burned_lp", format!("deposit reduced supply {s0} -> {s1}")));
                }
                let minted = s1 - s0;
                let (r0, r1) = (order(pi), order(&p1.pool_info));
                let dep = coins_to_map(funds);
                let single = dep.len() == 1;
                match pi.pool_type {
                    PoolType::ConstantProduct => {
                        if s0 == 0 {
                            // first deposit: isqrt(a*b) - 1000 to the depositor, 1000 locked
                            let k = big(r1[0]) * big(r1[1]);
                            let root = k.sqrt();
                            let want_total = root.clone();
                            if big(s1) != want_total || bal(&post.bal, &pm, lp) < 1000 {
                                return Err(viol("C02.first_deposit", format!("first deposit {:?}: supply {s1}, isqrt(x*y) = {root}, pool manager holds {}", r1, bal(&post.bal, &pm, lp))));
                            }
                            c.stats.bump("probe.c02.first_deposit_cp");
                        } else {
                            if !single {
                                // never more than the smaller of deposit/reserve over the two assets
                                let mut bound: Option<BigUint> = None;
                                for (i, d) in pi.asset_denoms.iter().enumerate() {
                                    let a = dep.get(d).copied().unwrap_or(0);
                                    let b = big(a) * big(s0) / big(r0[i].max(1));
                                    bound = Some(match bound {
                                        None => b,
                                        Some(x) => x.min(b),
                                    });
                                }
                                if let Some(b) = bound {
                                    if big(minted) > b {
                                        return Err(viol("C02.overminted", format!("deposit {:?} into reserves {:?} (supply {s0}) minted {minted} > min_i floor(dep_i*S/res_i) = {b}", dep, r0)));
                                    }
                                }
                            }
                            // value per LP never decreases: x'y' * S^2 >= xy * S'^2
                            let lhs = big(r1[0]) * big(r1[1]) * big(s0) * big(s0);
                            let rhs = big(r0[0]) * big(r0[1]) * big(s1) * big(s1);
                            if lhs < rhs {
                                return Err(viol(
                                    "C02.diluted",
                                    format!("{} deposit: reserves {:?} -> {:?}, supply {s0} -> {s1}: sqrt(xy)/supply decreased", if single { "single-asset" } else { "" }, r0, r1),
                                ));
                            }
                        }
                    }
                    PoolType::StableSwap { .. } => {
                        let d1 = d_of(pi, &r1);
                        let r = res();
                        if s0 == 0 {
                            // nobody to dilute on a first deposit; the accuracy of the minting invariant is C19's clause
                            let _ = &d1;
                            c.stats.bump("probe.c02.first_deposit_stable");
                        } else if let (Some(d0), Some(d1)) = (d_of(pi, &r0), d1) {
                            // minted * (D0 - 2) <= S * (D1 - D0 + 4), D scaled by RES
                            let two = big(2) * &r;
                            let four = big(4) * &r;
                            let d0m = if d0 > two { &d0 - &two } else { BigUint::zero() };
                            let growth = if &d1 + &four > d0 { &d1 + &four - &d0 } else { BigUint::zero() };
                            if big(minted) * &d0m > big(s0) * &growth {
                                let mut v = viol(
                                    "C02.overminted",
                                    format!(
                                        "stableswap {} deposit {:?}: reserves {:?} -> {:?}, supply {s0} -> {s1}: minted {minted} exceeds the growth of the exact invariant ({} -> {})",
                                        if single { "single-asset" } else { "" },
                                        dep,
                                        r0,
                                        r1,
                                        &d0 / &r,
                                        &d1 / &r
                                    ),
                                );
                                // envelope S9: beyond the 1000:1 skew for which pricing accuracy is stated
                                // the integer Newton iteration of the minting invariant is ill-conditioned
                                if super::c03::degenerate(pi, &r0) {
                                    v.finding = Some("S9-stableswap-skewed-pool-accuracy".into());
                                    v.truncate = false;
                                }
                                // the same envelope one step inside: the swap leg of a single-asset deposit
                                // can drain the other asset far beyond 1000:1 (half of a deposit larger than
                                // the pool, high amplification); the deposit leg is then priced on that
                                // degenerate intermediate state, which the swap's own event reports
                                if single && v.finding.is_none() {
                                    let mid = out
                                        .attrs()
                                        .iter()
                                        .find(|(k, _)| k == "pool_reserves")
                                        .and_then(|(_, rs)| super::c03::parse_reserves(rs, pi));
                                    if let Some(mid) = mid {
                                        if super::c03::degenerate(pi, &mid) {
                                            v.finding = Some("S9-stableswap-skewed-pool-accuracy".into());
                                            v.truncate = false;
                                            v.detail.push_str(&format!(" [reserves between the two legs: {:?}]", mid));
                                            c.stats.bump("probe.c02.single_asset_deposit_through_degenerate_state");
                                        }
                                    }
                                }
                                // envelope S8: the minting invariant is only accurate to a few units (integer
                                // Newton), so the mint can exceed the exact growth by those few units
                                if v.finding.is_none() {
                                    let lhs = big(minted) * &d0 / big(s0.max(1));
                                    let grow = if d1 > d0 { &d1 - &d0 } else { BigUint::zero() };
                                    let excess = if lhs > grow { (&lhs - &grow) / &r } else { BigUint::zero() };
                                    if excess <= big(64) + &d0 / &r / big(10).pow(18) {
                                        v.finding = Some("S8-mint-d-accuracy".into());
                                        v.truncate = false;
                                    }
                                }
                                // the internal swap of a single-asset deposit inherits S6: its output
                                // is rounded in the depositor's favour by at most one smallest unit of
                                // the other asset, so the excess (in invariant units) is bounded by that
                                if single && v.finding.is_none() {
                                    let dep_denom = dep.keys().next().unwrap();
                                    let j = pi.asset_denoms.iter().position(|d| d != dep_denom).unwrap_or(0);
                                    let mx = *pi.asset_decimals.iter().max().unwrap() as u32;
                                    let unit_j = big(10).pow(mx - pi.asset_decimals[j] as u32);
                                    // minted * D0 / S - (D1 - D0), in normalised units
                                    let lhs = big(minted) * &d0 / big(s0.max(1));
                                    let grow = if d1 > d0 { &d1 - &d0 } else { BigUint::zero() };
                                    let excess = if lhs > grow { (&lhs - &grow) / &r } else { BigUint::zero() };
                                    // value, in invariant units, of eight smallest units of the other asset (the
                                    // accuracy the swap path actually achieves, S11)
                                    let mut bumped = r0.clone();
                                    bumped[j] = bumped[j].saturating_add(8);
                                    let val = match d_of(pi, &bumped) {
                                        Some(db) if db > d0 => (&db - &d0) / &r + big(1),
                                        _ => unit_j.clone() * 2u32,
                                    };
                                    let fp = super::c03::fixed_point_slack(mx, &d0) / &r;
                                    if excess <= val.max(unit_j * 8u32) + big(8) + fp {
                                        v.finding = Some("S6-stableswap-output-rounding".into());
                                        v.truncate = false;
                                    }
                                }
                                return Err(v);
                            }
                        } else {
                            c.stats.bump("probe.c02.unsupported_decimals_skipped");
                        }
                    }
                }
                c.stats.sig(&[
                    "deposit",
                    pi.pool_type.get_label(),
                    &pi.assets.len().to_string(),
                    if s0 == 0 { "first" } else { "later" },
                    if single { "single" } else if dep.len() < pi.assets.len() { "subset" } else { "all" },
                    &format!("{:?}", pi.asset_decimals),
                ]);
            }
            PmMsg::WithdrawLiquidity { pool_identifier } => {
                let p0 = match pre.pool(pool_identifier) {
                    Some(p) => p,
                    None => return Ok(()),
                };
                let pi = &p0.pool_info;
                let lp = &pi.lp_denom;
                let s0 = supply(&pre.bal, lp);
                let r0 = order(pi);
                let m = coins_to_map(funds);
                let burned = m.get(lp).copied().unwrap_or(0);
                if out.ok() {
                    let p1 = post.pool(pool_identifier).unwrap();
                    let r1 = order(&p1.pool_info);
                    let s1 = supply(&post.bal, lp);
                    if m.len() != 1 || burned == 0 || s0 - s1 != burned {
                        return Err(viol("C02.withdraw_burn", format!("withdrawal with funds {:?}: supply {s0} -> {s1}", funds)));
                    }
                    let mut exp_user: BTreeMap<String, u128> = BTreeMap::new();
                    for (i, d) in pi.asset_denoms.iter().enumerate() {
                        let paid = r0[i] - r1[i].min(r0[i]);
                        if r1[i] > r0[i] {
                            return Err(viol("C02.withdraw_pay", format!("reserve of {d} grew on a withdrawal")));
                        }
                        let fair = u128::try_from(big(r0[i]) * big(burned) / big(s0)).unwrap_or(u128::MAX);
                        if paid > fair {
                            return Err(viol("C02.withdraw_overpaid", format!("withdrawing {burned}/{s0} of {d} reserve {}: paid {paid} > floor share {fair}", r0[i])));
                        }
                        if paid + 1 < fair {
                            let mut v = viol("C02.withdraw_underpaid", format!("withdrawing {burned}/{s0} of {d} reserve {}: paid {paid} < floor share {fair} - 1", r0[i]));
                            // envelope S7b: the share is an 18-digit ratio: short by at most reserve x 1e-18 (+1)
                            if fair - paid <= r0[i] / 10u128.pow(18) + 2 && r0[i] >= 10u128.pow(18) {
                                v.finding = Some("S7b-withdraw-share-18-digit-ratio".into());
                                v.truncate = false;
                            }
                            return Err(v);
                        }
                        if paid > 0 {
                            exp_user.insert(d.clone(), paid);
                        }
                    }
                    // the withdrawer actually received what left the reserves
                    for (d, a) in exp_user.iter() {
                        let got = super::util::sdiff(bal(&post.bal, sender, d), bal(&pre.bal, sender, d));
                        let want = super::util::si(*a).saturating_sub(if d == lp { super::util::si(burned) } else { 0 });
                        if got != want {
                            return Err(viol("C02.withdraw_pay", format!("withdrawer's {d} balance moved {got}, reserves paid {a}")));
                        }
                    }
                    // value per LP does not decrease
                    match pi.pool_type {
                        PoolType::ConstantProduct => {
                            if s1 > 0 {
                                let lhs = big(r1[0]) * big(r1[1]) * big(s0) * big(s0);
                                let rhs = big(r0[0]) * big(r0[1]) * big(s1) * big(s1);
                                if lhs < rhs {
                                    return Err(viol("C02.diluted", format!("withdrawal: reserves {:?} -> {:?}, supply {s0} -> {s1}: value per LP decreased", r0, r1)));
                                }
                            }
                        }
                        PoolType::StableSwap { .. } => {
                            if let (Some(d0), Some(d1)) = (d_of(pi, &r0), d_of(&p1.pool_info, &r1)) {
                                // D1/S1 >= D0/S0 up to the two-unit granularity of D
                                let two = big(2) * res();
                                if s1 > 0 && (&d1 + &two) * big(s0) < d0.clone() * big(s1) - (&two * big(s1)).min(d0.clone() * big(s1)) {
                                    return Err(viol("C02.diluted", format!("stableswap withdrawal: D/supply decreased: reserves {:?} -> {:?}, supply {s0} -> {s1}", r0, r1)));
                                }
                            }
                        }
                    }
                    c.stats.sig(&["withdraw", pi.pool_type.get_label(), &(burned.max(1).ilog10() / 3).to_string(), if burned == bal(&pre.bal, sender, lp) { "all" } else { "part" }]);
                    if r0.iter().any(|x| *x >= 10u128.pow(24)) {
                        c.stats.bump("probe.c02.withdraw_reserve_over_1e24");
                    }
                } else {
                    // availability: a holder can always redeem LP worth at least one unit of some asset
                    let enabled = pi.status.withdrawals_enabled;
                    let holds = bal(&pre.bal, sender, lp) >= burned && burned > 0;
                    let clean = m.len() == 1 && step.fault.is_none() && out.report.frozen_fired == 0;
                    if enabled && holds && clean && s0 >= burned {
                        let worth = (0..r0.len()).any(|i| big(r0[i]) * big(burned) / big(s0) >= big(1));
                        if worth {
                            let mut v = viol(
                                "C02.withdraw_refused",
                                format!("holder's withdrawal of {burned}/{s0} LP from reserves {:?} (worth at least one unit) refused: {}", r0, out.err_text().rsplit(": ").next().unwrap_or("")),
                            );
                            // the 18-digit share ratio can round a share of exactly one unit down to zero
                            let tiny = (0..r0.len()).all(|i| big(r0[i]) * big(burned) / big(s0) <= big(r0[i] / 10u128.pow(18) + 1));
                            if tiny {
                                v.finding = Some("S7b-withdraw-share-18-digit-ratio".into());
                                v.truncate = false;
                            }
                            return Err(v);
                        }
                    }
                }
            }
            _ => {}
        }
        Ok(())
    }
}
