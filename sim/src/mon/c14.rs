//! C14 — single-asset deposit == swap-half-then-deposit, atomically, without residue.

use std::collections::BTreeMap;

use cosmwasm_std::{coin, Order};
use mantra_dex_std::pool_manager::ExecuteMsg as PmMsg;

use super::util::*;
use crate::seams::{CallKind, CallRec, FaultSpec};
use crate::sim::{coins_to_map, viol, MResult, Monitor, Obs, SimCore};
use crate::trace::{Op, Step};
use crate::world::{bal, supply, Snap, TxOut};

#[derive(Default)]
pub struct C14 {
    snap: Option<Snap>,
    /// outcome of the manual two-step equivalent on a fork
    manual: Option<Manual>,
}

struct Manual {
    both_ok: bool,
    swap_ok: bool,
    added_shares: Option<u128>,
    pools: Vec<mantra_dex_std::pool_manager::PoolInfoResponse>,
    bal: crate::world::Balances,
    positions: Vec<mantra_dex_std::farm_manager::Position>,
}

fn buffer_present(c: &SimCore) -> bool {
    let st = c.w.app.contract_storage(&c.w.a.pm);
    st.get(b"single_side_liquidity_provision_buffer").is_some()
        || st
            .range(None, None, Order::Ascending)
            .any(|(k, _)| String::from_utf8_lossy(&k).contains("single_side_liquidity_provision_buffer"))
}

fn is_single(op: &Op) -> Option<(&String, &PmMsg, String, u128)> {
    if let Op::Pm { sender, msg: msg @ PmMsg::ProvideLiquidity { .. }, funds } = op {
        let m = coins_to_map(funds);
        if m.len() == 1 {
            let (d, a) = m.iter().next().unwrap();
            return Some((sender, msg, d.clone(), *a));
        }
    }
    None
}

impl Monitor for C14 {
    fn pre(&mut self, c: &mut SimCore, step: &Step, pre: &Obs) -> MResult {
        self.snap = Some(c.w.snapshot());
        self.manual = None;
        let (sender, msg, denom, amount) = match is_single(&step.op) {
            Some(x) => x,
            None => return Ok(()),
        };
        if step.fault.is_some() {
            return Ok(());
        }
        let PmMsg::ProvideLiquidity {
            liquidity_max_slippage,
            swap_max_slippage,
            receiver,
            pool_identifier,
            unlocking_duration,
            lock_position_identifier,
        } = msg
        else {
            return Ok(());
        };
        let p = match pre.pool(pool_identifier) {
            Some(p) => p,
            None => return Ok(()),
        };
        if p.pool_info.assets.len() != 2 || !p.pool_info.asset_denoms.contains(&denom) {
            return Ok(());
        }
        let other = p.pool_info.asset_denoms.iter().find(|d| **d != denom).unwrap().clone();
        let half = amount / 2;
        // the manual route needs one unit less than the single message when the amount is odd:
        // only comparable when the depositor can afford the single message's amount
        if bal(&pre.bal, sender, &denom) < amount {
            return Ok(());
        }
        // fork B: the depositor swaps half, then deposits that half plus the proceeds
        let snap = c.fork();
        let swap = Op::Pm {
            sender: sender.clone(),
            msg: PmMsg::Swap {
                ask_asset_denom: other.clone(),
                belief_price: None,
                max_slippage: *swap_max_slippage,
                receiver: None,
                pool_identifier: pool_identifier.clone(),
            },
            funds: vec![coin(half, denom.clone())],
        };
        let o1 = c.exec_op(&swap, None);
        let mut manual = Manual { both_ok: false, swap_ok: o1.ok(), added_shares: None, pools: vec![], bal: Default::default(), positions: vec![] };
        if o1.ok() {
            let proceeds: u128 = o1.attr("return_amount").and_then(|v| v.parse().ok()).unwrap_or(0);
            let mut funds = vec![coin(half, denom.clone()), coin(proceeds, other.clone())];
            funds.retain(|c| !c.amount.is_zero());
            funds.sort_by(|a, b| a.denom.cmp(&b.denom));
            let dep = Op::Pm {
                sender: sender.clone(),
                msg: PmMsg::ProvideLiquidity {
                    liquidity_max_slippage: *liquidity_max_slippage,
                    swap_max_slippage: *swap_max_slippage,
                    receiver: receiver.clone(),
                    pool_identifier: pool_identifier.clone(),
                    unlocking_duration: *unlocking_duration,
                    lock_position_identifier: lock_position_identifier.clone(),
                },
                funds: funds.clone(),
            };
            // a zero-proceeds swap leaves a one-coin deposit, which would itself be a single-asset
            // deposit: not comparable
            if funds.len() == 2 {
                let o2 = c.exec_op(&dep, None);
                manual.both_ok = o2.ok();
                manual.added_shares = o2.attrs().iter().rev().find(|(k, _)| k == "added_shares").and_then(|(_, v)| v.parse().ok());
                manual.pools = c.w.pools();
                manual.bal = c.w.balances();
                manual.positions = c.w.positions();
                self.manual = Some(manual);
            }
        } else {
            self.manual = Some(manual);
        }
        c.w.restore(&snap);
        Ok(())
    }

    fn post(&mut self, c: &mut SimCore, step: &Step, pre: &Obs, out: &TxOut, post: &Obs) -> MResult {
        let pre_snap = self.snap.take().expect("snap");
        // ---- never any temporary bookkeeping left behind, after any step of any run
        if buffer_present(c) {
            return Err(viol("C14.buffer_left", format!("single-side buffer present after {} ({})", step.op.kind(), if out.ok() { "ok" } else { "rejected" })));
        }
        let (sender, msg, denom, amount) = match is_single(&step.op) {
            Some(x) => x,
            None => return Ok(()),
        };
        let PmMsg::ProvideLiquidity { receiver, pool_identifier, unlocking_duration, lock_position_identifier, .. } = msg else {
            return Ok(());
        };
        let pm = c.w.a.pm.to_string();
        let p = match pre.pool(pool_identifier) {
            Some(p) => p,
            None => return Ok(()),
        };
        let n_assets = p.pool_info.assets.len();
        let empty = p.pool_info.assets.iter().any(|a| a.amount.is_zero());
        // ---- refused on empty or larger pools
        if out.ok() && (n_assets != 2 || empty) {
            return Err(viol("C14.accepted_on_wrong_pool", format!("single-asset deposit accepted on pool {pool_identifier} with {n_assets} assets, empty={empty}")));
        }
        // ---- never locks LP for / expands a position of someone other than the sender
        let recv = match receiver {
            Some(r) if valid_addr(r) => r.clone(),
            _ => sender.clone(),
        };
        if out.ok() && unlocking_duration.is_some() {
            if recv != *sender {
                return Err(viol("C14.lock_for_other", format!("locked single-asset deposit accepted with receiver {} != sender", c.w.a.name(&recv))));
            }
            for q in post.positions.iter() {
                let before = pre.position(&q.identifier);
                let grew = match before {
                    None => true,
                    Some(b) => b.lp_asset.amount != q.lp_asset.amount,
                };
                if grew && q.receiver.as_str() != sender.as_str() {
                    return Err(viol("C14.lock_for_other", format!("position {} of {} changed by {}'s single-asset deposit", q.identifier, c.w.a.name(q.receiver.as_str()), c.w.a.name(sender))));
                }
            }
            let _ = lock_position_identifier;
        }
        if n_assets != 2 || empty {
            return Ok(());
        }
        c.stats.bump("probe.c14.single_asset_examined");
        // ---- derived attempts (forks of the state after this step): the same depositor tries to
        // lock this deposit into an open position of somebody else holding this pool's LP, with
        // the victim's own duration / a present-but-zero one, for themselves / "on behalf of" the
        // victim. Whatever the outcome, no position of another owner may change.
        if step.fault.is_none() {
            let victims: Vec<mantra_dex_std::farm_manager::Position> = post
                .positions
                .iter()
                .filter(|q| q.open && q.lp_asset.denom == p.pool_info.lp_denom && q.receiver.as_str() != sender.as_str())
                .take(2)
                .cloned()
                .collect();
            for v in victims.iter() {
                for d in [v.unlocking_duration, 0, 1] {
                    for recv in [None, Some(v.receiver.to_string())] {
                        let snap = c.fork();
                        let op = Op::Pm {
                            sender: sender.clone(),
                            msg: PmMsg::ProvideLiquidity {
                                liquidity_max_slippage: None,
                                swap_max_slippage: Some(cosmwasm_std::Decimal::percent(50)),
                                receiver: recv.clone(),
                                pool_identifier: pool_identifier.clone(),
                                unlocking_duration: Some(d),
                                lock_position_identifier: Some(v.identifier.clone()),
                            },
                            funds: vec![coin(amount, denom.clone())],
                        };
                        c.w.faucet(&cosmwasm_std::Addr::unchecked(sender.clone()), vec![coin(amount, denom.clone())]);
                        let o = c.exec_op(&op, None);
                        let after = c.w.positions();
                        c.w.restore(&snap);
                        c.stats.bump(if o.ok() { "probe.c14.foreign_lock_attempt_accepted" } else { "probe.c14.foreign_lock_attempt_refused" });
                        if o.ok() {
                            for q in after.iter() {
                                let before = post.position(&q.identifier);
                                let changed = before.map(|b| b.lp_asset.amount != q.lp_asset.amount).unwrap_or(true);
                                if changed && q.receiver.as_str() != sender.as_str() {
                                    return Err(viol(
                                        "C14.lock_for_other",
                                        format!(
                                            "{}'s single-asset deposit of {amount}{denom} naming position {} (unlocking_duration {d}, receiver {:?}) changed position {} of {}",
                                            c.w.a.name(sender), v.identifier, recv.as_ref().map(|r| c.w.a.name(r)), q.identifier, c.w.a.name(q.receiver.as_str())
                                        ),
                                    ));
                                }
                            }
                        }
                    }
                }
            }
        }
        // ---- atomicity: rejected => nothing changed
        if !out.ok() && !c.w.storage_eq(&pre_snap) {
            return Err(viol("C14.partial_effect", format!("rejected single-asset deposit changed state at {:?}", c.w.storage_diff(&pre_snap))));
        }
        // ---- equivalence with the manual two-step
        if let Some(m) = self.manual.take() {
            c.stats.bump("probe.c14.compared_with_manual");
            if out.ok() != (m.swap_ok && m.both_ok) {
                return Err(viol(
                    "C14.accept_mismatch",
                    format!(
                        "single-asset deposit of {amount}{denom} {} but manual swap {} / deposit {} ({})",
                        if out.ok() { "accepted" } else { "rejected" },
                        if m.swap_ok { "accepted" } else { "rejected" },
                        if m.both_ok { "accepted" } else { "rejected" },
                        out.err_text()
                    ),
                ));
            }
            if out.ok() {
                let added: Option<u128> = out.attrs().iter().rev().find(|(k, _)| k == "added_shares").and_then(|(_, v)| v.parse().ok());
                if added != m.added_shares {
                    return Err(viol("C14.lp_mismatch", format!("LP minted {:?} vs manual two-step {:?}", added, m.added_shares)));
                }
                for q in post.pools.iter() {
                    let r = m.pools.iter().find(|x| x.pool_info.pool_identifier == q.pool_info.pool_identifier);
                    if r.map(|r| r.pool_info.assets != q.pool_info.assets || r.total_share != q.total_share).unwrap_or(true) {
                        return Err(viol(
                            "C14.reserves_mismatch",
                            format!("pool {} after single-asset deposit {:?}/{} vs manual {:?}", q.pool_info.pool_identifier, q.pool_info.assets, q.total_share, r.map(|r| (&r.pool_info.assets, &r.total_share))),
                        ));
                    }
                }
                // balances: identical except the odd unit (with the contract here, with the user in the manual run)
                let odd = (amount % 2) as i128;
                let mut diff: BTreeMap<(String, String), i128> = BTreeMap::new();
                for ((a, d), v) in deltas(&m.bal, &post.bal) {
                    diff.insert((a, d), v);
                }
                let mut exp: BTreeMap<(String, String), i128> = BTreeMap::new();
                add_delta(&mut exp, &pm, &denom, odd);
                add_delta(&mut exp, sender, &denom, -odd);
                if diff != exp {
                    return Err(viol(
                        "C14.balances_mismatch",
                        format!("balances differ from the manual two-step by [{}], expected only the odd unit [{}]", fmt_deltas(&c.w.a, &diff), fmt_deltas(&c.w.a, &exp)),
                    ));
                }
                // positions: same set with same amounts/owners (ids of generated positions coincide
                // because both forks start from the same counter)
                let key = |v: &Vec<mantra_dex_std::farm_manager::Position>| -> Vec<(String, String, u128, bool)> {
                    v.iter().map(|p| (p.identifier.clone(), p.receiver.to_string(), p.lp_asset.amount.u128(), p.open)).collect()
                };
                if key(&post.positions) != key(&m.positions) {
                    return Err(viol("C14.position_mismatch", "positions after single-asset deposit differ from the manual two-step".into()));
                }
                if unlocking_duration.is_some() {
                    c.stats.bump("probe.c14.locked_single_asset_ok");
                }
                let _ = (bal(&post.bal, &pm, &denom), supply(&post.bal, &denom));
            }
        }
        // ---- complete enumeration of every internal fault point of this deposit
        if step.fault.is_none() {
            let clean_post = c.w.snapshot();
            let mut seen: BTreeMap<(CallKind, String), u32> = BTreeMap::new();
            let mut points: Vec<(CallRec, u32)> = vec![];
            for call in out.report.calls.iter() {
                let e = seen.entry((call.kind, call.sig.clone())).or_insert(0);
                points.push((call.clone(), *e));
                *e += 1;
            }
            let mut res = Ok(());
            for (call, nth) in points {
                c.w.restore(&pre_snap);
                c.stats.forks += 1;
                c.stats.fault_points += 1;
                c.stats.bump(&format!("fault.enumerated.{}", call.kind.name()));
                let o = c.exec_op(&step.op, Some(FaultSpec { kind: call.kind, sig: call.sig.clone(), nth }));
                if o.report.fault_fired == 0 {
                    continue;
                }
                if o.ok() && !call.kind.is_query() {
                    res = Err(viol("C14.fault_swallowed", format!("internal step {} [{}] failed but the deposit was accepted", call.kind.name(), call.sig)));
                    break;
                }
                if !o.ok() && !c.w.storage_eq(&pre_snap) {
                    res = Err(viol("C14.partial_effect", format!("after failing {} [{}] state changed at {:?}", call.kind.name(), call.sig, c.w.storage_diff(&pre_snap))));
                    break;
                }
                if buffer_present(c) {
                    res = Err(viol("C14.buffer_left", format!("buffer present after failing {} [{}]", call.kind.name(), call.sig)));
                    break;
                }
            }
            c.w.restore(&clean_post);
            res?;
        }
        c.stats.sig(&[
            "single",
            p.pool_info.pool_type.get_label(),
            if out.ok() { "ok" } else { "rej" },
            if amount % 2 == 1 { "odd" } else { "even" },
            if unlocking_duration.is_some() { "lock" } else { "nolock" },
            if recv != *sender { "other" } else { "self" },
            &out.report.calls.len().to_string(),
        ]);
        Ok(())
    }
}
