//! C06 — rewards paid never exceed what a farm has emitted (model-light bounds).

use std::collections::{BTreeMap, BTreeSet};

use mantra_dex_std::farm_manager::{ExecuteMsg as FmMsg, QueryMsg as FmQuery, RewardsResponse};

use crate::sim::{viol, MResult, Monitor, Obs, SimCore};
use crate::trace::{Op, Step};
use crate::world::TxOut;

#[derive(Default)]
pub struct C06 {
    /// own claim cursor per user
    cursor: BTreeMap<String, u64>,
    /// earliest epoch from which a user's weight in an LP token can be in effect, since the user
    /// last had no open position in it
    first_eff: BTreeMap<(String, String), u64>,
    ok_before: BTreeSet<String>,
    /// what the pending claim pays per farm and epoch, measured by claiming the same span epoch by
    /// epoch on a fork: (farm key, epoch, amount)
    attrib: Option<Vec<(FarmKey, Option<u64>, u128)>>,
    /// paid to all users so far per farm and epoch
    paid_fe: BTreeMap<(FarmKey, u64), u128>,
}

/// identifier, start epoch, reward denom, emission rate (a farm re-created under an old identifier is another farm)
type FarmKey = (String, u64, String, u128);

fn farm_key(f: &mantra_dex_std::farm_manager::Farm) -> FarmKey {
    (f.identifier.clone(), f.start_epoch, f.farm_asset.denom.clone(), f.emission_rate.u128())
}

const ATTRIB_MAX_SPAN: u64 = 32;

/// Claims (lo..=upto) one epoch at a time on a fork and reads every farm's `claimed_amount` after each
/// claim. Spans longer than ATTRIB_MAX_SPAN are attributed at both ends only (the middle is claimed in
/// one message and attributed to nobody, which under-counts and is therefore sound): `None` marks it.
fn attribute(c: &mut SimCore, user: &str, lo: u64, upto: u64) -> Option<Vec<(FarmKey, Option<u64>, u128)>> {
    let snap = c.w.snapshot();
    c.stats.forks += 1;
    let mut prev: BTreeMap<FarmKey, u128> = c.w.farms().iter().map(|f| (farm_key(f), f.claimed_amount.u128())).collect();
    let mut v = vec![];
    let half = ATTRIB_MAX_SPAN / 2;
    let epochs: Vec<(u64, bool)> = if upto - lo < ATTRIB_MAX_SPAN {
        (lo..=upto).map(|e| (e, true)).collect()
    } else {
        (lo..lo + half).map(|e| (e, true)).chain(std::iter::once((upto - half, false))).chain((upto - half + 1..=upto).map(|e| (e, true))).collect()
    };
    for (e, single) in epochs {
        let o = c.exec_op(&Op::Fm { sender: user.to_string(), msg: FmMsg::Claim { until_epoch: Some(e) }, funds: vec![] }, None);
        if !o.ok() {
            c.w.restore(&snap);
            return None;
        }
        let now: BTreeMap<FarmKey, u128> = c.w.farms().iter().map(|f| (farm_key(f), f.claimed_amount.u128())).collect();
        for (k, a) in now.iter() {
            let p = prev.get(k).copied().unwrap_or(0);
            if *a > p {
                v.push((k.clone(), if single { Some(e) } else { None }, a - p));
            }
        }
        prev = now;
    }
    c.w.restore(&snap);
    Some(v)
}

fn dry_claim_ok(c: &mut SimCore, user: &str) -> bool {
    let snap = c.w.snapshot();
    c.stats.forks += 1;
    let o = c.exec_op(&Op::Fm { sender: user.to_string(), msg: FmMsg::Claim { until_epoch: None }, funds: vec![] }, None);
    c.w.restore(&snap);
    o.ok()
}

fn users_with_open(o: &Obs) -> BTreeSet<String> {
    o.positions.iter().filter(|p| p.open).map(|p| p.receiver.to_string()).collect()
}

impl Monitor for C06 {
    fn pre(&mut self, c: &mut SimCore, step: &Step, pre: &Obs) -> MResult {
        self.ok_before.clear();
        self.attrib = None;
        if let (Op::Fm { sender, msg: FmMsg::Claim { until_epoch }, funds }, None, Some(cur)) = (&step.op, &step.fault, c.w.current_epoch()) {
            let upto = until_epoch.unwrap_or(cur);
            let lo = match pre.last_claimed.get(sender) {
                Some(l) => Some(l + 1),
                None => pre.weights.keys().filter(|(a, _, _)| a == sender).map(|(_, _, e)| *e).min(),
            };
            if let Some(lo) = lo {
                if funds.is_empty() && upto <= cur && upto >= lo && pre.positions.iter().any(|p| p.open && p.receiver.as_str() == sender) {
                    self.attrib = attribute(c, sender, lo, upto);
                    c.stats.bump(if self.attrib.is_some() { "probe.c06.claim_attributed_per_epoch" } else { "probe.c06.claim_not_attributable" });
                    if upto - lo >= ATTRIB_MAX_SPAN {
                        c.stats.bump("probe.c06.claim_attributed_at_both_ends_only");
                    }
                }
            }
        }
        if let Op::Fm { sender, msg: FmMsg::Claim { .. }, .. } = &step.op {
            for u in users_with_open(pre) {
                if &u != sender && dry_claim_ok(c, &u) {
                    self.ok_before.insert(u);
                }
            }
        }
        Ok(())
    }

    fn post(&mut self, c: &mut SimCore, step: &Step, pre: &Obs, out: &TxOut, post: &Obs) -> MResult {
        let epoch = c.w.current_epoch();
        // ---- per farm: cumulative payouts never exceed emission x elapsed epochs nor the budget
        if let Some(e) = epoch {
            for f in post.farms.iter() {
                let last = e.min(f.preliminary_end_epoch.saturating_sub(1));
                let elapsed: u128 = if last >= f.start_epoch { (last - f.start_epoch + 1) as u128 } else { 0 };
                let cap = f.emission_rate.u128().saturating_mul(elapsed);
                if f.claimed_amount.u128() > cap || f.claimed_amount > f.farm_asset.amount {
                    return Err(viol(
                        "C06.farm_overpaid",
                        format!("farm {}: claimed {} > emission {} x {} elapsed epochs = {} (funded {})", f.identifier, f.claimed_amount, f.emission_rate, elapsed, cap, f.farm_asset.amount),
                    ));
                }
            }
        }
        // ---- bookkeeping of when a user's weight can first be in effect
        if out.ok() {
            if let Some(e) = epoch {
                for p in post.positions.iter().filter(|p| p.open) {
                    if pre.position(&p.identifier).is_none() {
                        let k = (p.receiver.to_string(), p.lp_asset.denom.clone());
                        let v = self.first_eff.entry(k).or_insert(e + 1);
                        *v = (*v).min(e + 1);
                    }
                }
            }
        }
        // ---- per accepted claim
        if let Op::Fm { sender, msg: FmMsg::Claim { until_epoch }, .. } = &step.op {
            if out.ok() {
                let cur = epoch.unwrap_or(0);
                let upto = until_epoch.unwrap_or(cur);
                let empty = BTreeMap::new();
                let b0 = pre.bal.get(sender).unwrap_or(&empty);
                let b1 = post.bal.get(sender).unwrap_or(&empty);
                let mut paid: BTreeMap<String, u128> = BTreeMap::new();
                for (d, v) in b1.iter() {
                    let p = b0.get(d).copied().unwrap_or(0);
                    if *v > p {
                        paid.insert(d.clone(), v - p);
                    }
                }
                let cursor = self.cursor.get(sender).copied();
                // bound: whole emission of every epoch in (cursor, until] in which the user's weight
                // could be in effect and the farm was emitting
                let mut bound: BTreeMap<String, u128> = BTreeMap::new();
                for f in pre.farms.iter() {
                    if let Some(fe) = self.first_eff.get(&(sender.clone(), f.lp_denom.clone())) {
                        let lo = f.start_epoch.max(*fe).max(cursor.map(|c| c + 1).unwrap_or(0));
                        let hi = upto.min(f.preliminary_end_epoch.saturating_sub(1));
                        if hi >= lo {
                            *bound.entry(f.farm_asset.denom.clone()).or_insert(0) += f.emission_rate.u128().saturating_mul((hi - lo + 1) as u128);
                        }
                    }
                }
                for (d, a) in paid.iter() {
                    let b = bound.get(d).copied().unwrap_or(0);
                    if *a > b {
                        return Err(viol(
                            "C06.paid_outside_window",
                            format!(
                                "{} claimed until {upto} (own cursor {:?}) and was paid {a}{d}; the whole emission of the epochs in which their weight could be in effect is {b}",
                                c.w.a.name(sender),
                                cursor
                            ),
                        ));
                    }
                }
                if !paid.is_empty() {
                    c.stats.bump("probe.c06.claim_paid");
                }
                // ---- per farm and epoch: what all users were paid for it never exceeds its emission.
                // The claim is attributed to epochs by the epoch-by-epoch schedule run on a fork before
                // it; used only when that schedule pays every farm exactly what the claim paid (that
                // they agree is C07's statement, not this one's).
                if let Some(att) = self.attrib.take() {
                    let mut by_farm: BTreeMap<FarmKey, u128> = BTreeMap::new();
                    for (k, _, a) in att.iter() {
                        *by_farm.entry(k.clone()).or_insert(0) += a;
                    }
                    let mut real: BTreeMap<FarmKey, u128> = BTreeMap::new();
                    for f in post.farms.iter() {
                        let k = farm_key(f);
                        let before = pre.farms.iter().find(|g| farm_key(g) == k).map(|g| g.claimed_amount.u128()).unwrap_or(0);
                        if f.claimed_amount.u128() > before {
                            real.insert(k, f.claimed_amount.u128() - before);
                        }
                    }
                    if by_farm == real {
                        for (k, e, a) in att {
                            let e = match e {
                                Some(e) => e,
                                None => continue,
                            };
                            let t = self.paid_fe.entry((k.clone(), e)).or_insert(0);
                            *t += a;
                            if *t > k.3 {
                                return Err(viol(
                                    "C06.epoch_overpaid",
                                    format!("farm {} (rate {} {} per epoch): all users together were paid {} for epoch {e}; the last {a} went to {}", k.0, k.3, k.2, *t, c.w.a.name(sender)),
                                ));
                            }
                            if *t > a {
                                c.stats.bump("probe.c06.epoch_shared_by_several_claims");
                            }
                        }
                    } else {
                        c.stats.bump("probe.c06.attribution_disagrees_with_claim");
                    }
                }
                if let Some(u) = until_epoch {
                    if *u < cur {
                        c.stats.bump("probe.c06.claim_until_before_current");
                    }
                    if cursor == Some(*u) {
                        c.stats.bump("probe.c06.claim_until_equals_cursor");
                    }
                }
                self.cursor.insert(sender.clone(), upto.max(cursor.unwrap_or(0)));
                // ---- no epoch is paid twice: an immediate second claim / query yields nothing
                let snap = c.w.snapshot();
                c.stats.forks += 1;
                let before = c.w.balances();
                let again = c.exec_op(&step.op, None);
                let after = c.w.balances();
                let gained = after.get(sender).map(|m| m.iter().any(|(d, v)| *v > before.get(sender).and_then(|x| x.get(d)).copied().unwrap_or(0))).unwrap_or(false);
                c.w.restore(&snap);
                if again.ok() && gained {
                    return Err(viol("C06.paid_twice", format!("repeating the claim (until {:?}) immediately paid {} again", until_epoch, c.w.a.name(sender))));
                }
                let q: Result<RewardsResponse, _> = c.w.app.wrap().query_wasm_smart(
                    c.w.a.fm.to_string(),
                    &FmQuery::Rewards { address: sender.clone(), until_epoch: *until_epoch },
                );
                if let Ok(RewardsResponse::RewardsResponse { total_rewards, .. }) = q {
                    if total_rewards.iter().any(|c| !c.amount.is_zero()) {
                        return Err(viol("C06.paid_twice", format!("Rewards query right after the claim still reports {:?}", total_rewards)));
                    }
                }
                // ---- no cross-user denial
                let before_ok = std::mem::take(&mut self.ok_before);
                for u in before_ok {
                    if users_with_open(post).contains(&u) && !dry_claim_ok(c, &u) {
                        return Err(viol(
                            "C06.cross_user_denial",
                            format!("{}'s claim succeeded before {}'s claim and fails after it", c.w.a.name(&u), c.w.a.name(sender)),
                        ));
                    }
                    c.stats.bump("probe.c06.other_users_claim_still_ok");
                }
                c.stats.sig(&["claim", &paid.len().to_string(), if until_epoch.is_some() { "until" } else { "now" }, &post.farms.len().min(4).to_string()]);
            }
        }
        // ---- a farm that still owes rewards and has not expired disappears only when its owner or the
        // contract owner closes it: anybody else's message that sweeps it voids other users' claims
        if out.ok() {
            let now = c.w.now();
            let sender = step.op.sender().unwrap_or_default().to_string();
            let fm_owner = c.w.ownership(&c.w.a.fm).owner.map(|o| o.to_string()).unwrap_or_default();
            for f0 in pre.farms.iter() {
                if post.farm(&f0.identifier).is_none() && f0.owner.as_str() != sender && fm_owner != sender && super::c09::farm_expired(&c.w, f0, now) != Some(true) {
                    return Err(viol(
                        "C06.farm_closed_with_rewards_due",
                        format!("farm {} still owed {} {} and had not expired, but {} by {} closed it: unclaimed rewards of its users are void", f0.identifier, f0.farm_asset.amount.u128().saturating_sub(f0.claimed_amount.u128()), f0.farm_asset.denom, step.op.kind(), c.w.a.name(&sender)),
                    ));
                }
            }
        }
        // ---- at DryClaims steps: nobody's rightful claim fails because a farm ran dry
        if matches!(step.op, Op::DryClaims) {
            for u in users_with_open(post) {
                let snap = c.w.snapshot();
                c.stats.forks += 1;
                // up to now, and bounded by earlier epochs (others may have claimed later ones)
                let cur = c.w.current_epoch().unwrap_or(0);
                let last = post.last_claimed.get(&u).copied();
                let mut untils: Vec<Option<u64>> = vec![None];
                if let Some(l) = last {
                    if l + 1 < cur {
                        untils.push(Some(l + 1));
                        untils.push(Some(l + (cur - l) / 2));
                    }
                }
                untils.dedup();
                for until_epoch in untils {
                    let o = c.exec_op(&Op::Fm { sender: u.clone(), msg: FmMsg::Claim { until_epoch }, funds: vec![] }, None);
                    c.w.restore(&snap);
                    c.stats.bump(if until_epoch.is_some() { "probe.c06.dry_claim_bounded" } else { "probe.c06.dry_claim" });
                    if !o.ok() && o.err_text().contains("enough funds to pay out the reward") {
                        return Err(viol(
                            "C06.claim_fails_farm_exhausted",
                            format!("{}'s claim (until_epoch {:?}) fails because a farm cannot pay the computed reward (somebody was overpaid, the total weight is below the users' sum, or the farm's budget check counts what others claimed for later epochs)", c.w.a.name(&u), until_epoch),
                        ));
                    }
                }
            }
        }
        // own cursors and windows are cleared when a user leaves (documented: pending rewards are
        // settled before a close and forfeited on an emergency exit)
        let mut open_by: BTreeSet<(String, String)> = BTreeSet::new();
        let mut any_open: BTreeSet<String> = BTreeSet::new();
        for p in post.positions.iter().filter(|p| p.open) {
            open_by.insert((p.receiver.to_string(), p.lp_asset.denom.clone()));
            any_open.insert(p.receiver.to_string());
        }
        let live: BTreeSet<FarmKey> = post.farms.iter().map(farm_key).collect();
        self.paid_fe.retain(|(k, _), _| live.contains(k));
        self.first_eff.retain(|k, _| open_by.contains(k));
        self.cursor.retain(|u, _| any_open.contains(u));
        if !matches!(&step.op, Op::Fm { msg: FmMsg::Claim { .. }, .. }) {
            c.stats.sig(&[step.op.kind(), &post.farms.len().min(4).to_string(), &any_open.len().to_string()]);
        }
        Ok(())
    }
}
