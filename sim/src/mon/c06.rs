//! C06 — rewards paid never exceed what a farm has emitted (model-light bounds).

use std::collections::{BTreeMap, BTreeSet};

use mantra_dex_std::farm_manager::{ExecuteMsg as FmMsg, QueryMsg as FmQuery, RewardsResponse};

use crate::sim::{viol, MResult, Monitor, Obs, SimCore};
use crate::trace::{Op, Step};
use crate::world::TxOut;

#[derive(Default)]
pub struct C06 {
    /// own claim cursor per user
    cursor: BTreeMap<String, u64>,
    /// earliest epoch from which a user's weight in an LP token can be in effect, since the user
    /// last had no open position in it
    first_eff: BTreeMap<(String, String), u64>,
    ok_before: BTreeSet<String>,
}

fn dry_claim_ok(c: &mut SimCore, user: &str) -> bool {
    let snap = c.w.snapshot();
    c.stats.forks += 1;
    let o = c.exec_op(&Op::Fm { sender: user.to_string(), msg: FmMsg::Claim { until_epoch: None }, funds: vec![] }, None);
    c.w.restore(&snap);
    o.ok()
}

fn users_with_open(o: &Obs) -> BTreeSet<String> {
    o.positions.iter().filter(|p| p.open).map(|p| p.receiver.to_string()).collect()
}

impl Monitor for C06 {
    fn pre(&mut self, c: &mut SimCore, step: &Step, pre: &Obs) -> MResult {
        self.ok_before.clear();
        if let Op::Fm { sender, msg: FmMsg::Claim { .. }, .. } = &step.op {
            for u in users_with_open(pre) {
                if &u != sender && dry_claim_ok(c, &u) {
                    self.ok_before.insert(u);
                }
            }
        }
        Ok(())
    }

    fn post(&mut self, c: &mut SimCore, step: &Step, pre: &Obs, out: &TxOut, post: &Obs) -> MResult {
        let epoch = c.w.current_epoch();
        // ---- per farm: cumulative payouts never exceed emission x elapsed epochs nor the budget
        if let Some(e) = epoch {
            for f in post.farms.iter() {
                let last = e.min(f.preliminary_end_epoch.saturating_sub(1));
                let elapsed: u128 = if last >= f.start_epoch { (last - f.start_epoch + 1) as u128 } else { 0 };
                let cap = f.emission_rate.u128().saturating_mul(elapsed);
                if f.claimed_amount.u128() > cap || f.claimed_amount > f.farm_asset.amount {
                    return Err(viol(
                        "C06.farm_overpaid",
                        format!("farm {}: claimed {} > emission {} x {} elapsed epochs = {} (funded {})", f.identifier, f.claimed_amount, f.emission_rate, elapsed, cap, f.farm_asset.amount),
                    ));
                }
            }
        }
        // ---- bookkeeping of when a user's weight can first be in effect
        if out.ok() {
            if let Some(e) = epoch {
                for p in post.positions.iter().filter(|p| p.open) {
                    if pre.position(&p.identifier).is_none() {
                        let k = (p.receiver.to_string(), p.lp_asset.denom.clone());
                        let v = self.first_eff.entry(k).or_insert(e + 1);
                        *v = (*v).min(e + 1);
                    }
                }
            }
        }
        // ---- per accepted claim
        if let Op::Fm { sender, msg: FmMsg::Claim { until_epoch }, .. } = &step.op {
            if out.ok() {
                let cur = epoch.unwrap_or(0);
                let upto = until_epoch.unwrap_or(cur);
                let empty = BTreeMap::new();
                let b0 = pre.bal.get(sender).unwrap_or(&empty);
                let b1 = post.bal.get(sender).unwrap_or(&empty);
                let mut paid: BTreeMap<String, u128> = BTreeMap::new();
                for (d, v) in b1.iter() {
                    let p = b0.get(d).copied().unwrap_or(0);
                    if *v > p {
                        paid.insert(d.clone(), v - p);
                    }
                }
                let cursor = self.cursor.get(sender).copied();
                // bound: whole emission of every epoch in (cursor, until] in which the user's weight
                // could be in effect and the farm was emitting
                let mut bound: BTreeMap<String, u128> = BTreeMap::new();
                for f in pre.farms.iter() {
                    if let Some(fe) = self.first_eff.get(&(sender.clone(), f.lp_denom.clone())) {
                        let lo = f.start_epoch.max(*fe).max(cursor.map(|c| c + 1).unwrap_or(0));
                        let hi = upto.min(f.preliminary_end_epoch.saturating_sub(1));
                        if hi >= lo {
                            *bound.entry(f.farm_asset.denom.clone()).or_insert(0) += f.emission_rate.u128().saturating_mul((hi - lo + 1) as u128);
                        }
                    }
                }
                for (d, a) in paid.iter() {
                    let b = bound.get(d).copied().unwrap_or(0);
                    if *a > b {
                        return Err(viol(
                            "C06.paid_outside_window",
                            format!(
                                "{} claimed until {upto} (own cursor {:?}) and was paid {a}{d}; the whole emission of the epochs in which their weight could be in effect is {b}",
                                c.w.a.name(sender),
                                cursor
                            ),
                        ));
                    }
                }
                if !paid.is_empty() {
                    c.stats.bump("probe.c06.claim_paid");
                }
                if let Some(u) = until_epoch {
                    if *u < cur {
                        c.stats.bump("probe.c06.claim_until_before_current");
                    }
                    if cursor == Some(*u) {
                        c.stats.bump("probe.c06.claim_until_equals_cursor");
                    }
                }
                self.cursor.insert(sender.clone(), upto.max(cursor.unwrap_or(0)));
                // ---- no epoch is paid twice: an immediate second claim / query yields nothing
                let snap = c.w.snapshot();
                c.stats.forks += 1;
                let before = c.w.balances();
                let again = c.exec_op(&step.op, None);
                let after = c.w.balances();
                let gained = after.get(sender).map(|m| m.iter().any(|(d, v)| *v > before.get(sender).and_then(|x| x.get(d)).copied().unwrap_or(0))).unwrap_or(false);
                c.w.restore(&snap);
                if again.ok() && gained {
                    return Err(viol("C06.paid_twice", format!("repeating the claim (until {:?}) immediately paid {} again", until_epoch, c.w.a.name(sender))));
                }
                let q: Result<RewardsResponse, _> = c.w.app.wrap().query_wasm_smart(
                    c.w.a.fm.to_string(),
                    &FmQuery::Rewards { address: sender.clone(), until_epoch: *until_epoch },
                );
                if let Ok(RewardsResponse::RewardsResponse { total_rewards, .. }) = q {
                    if total_rewards.iter().any(|c| !c.amount.is_zero()) {
                        return Err(viol("C06.paid_twice", format!("Rewards query right after the claim still reports {:?}", total_rewards)));
                    }
                }
                // ---- no cross-user denial
                let before_ok = std::mem::take(&mut self.ok_before);
                for u in before_ok {
                    if users_with_open(post).contains(&u) && !dry_claim_ok(c, &u) {
                        return Err(viol(
                            "C06.cross_user_denial",
                            format!("{}'s claim succeeded before {}'s claim and fails after it", c.w.a.name(&u), c.w.a.name(sender)),
                        ));
                    }
                    c.stats.bump("probe.c06.other_users_claim_still_ok");
                }
                c.stats.sig(&["claim", &paid.len().to_string(), if until_epoch.is_some() { "until" } else { "now" }, &post.farms.len().min(4).to_string()]);
            }
        }
        // ---- a farm that still owes rewards and has not expired disappears only when its owner or the
        // contract owner closes it: anybody else's message that sweeps it voids other users' claims
        if out.ok() {
            let now = c.w.now();
            let sender = step.op.sender().unwrap_or_default().to_string();
            let fm_owner = c.w.ownership(&c.w.a.fm).owner.map(|o| o.to_string()).unwrap_or_default();
            for f0 in pre.farms.iter() {
                if post.farm(&f0.identifier).is_none() && f0.owner.as_str() != sender && fm_owner != sender && super::c09::farm_expired(&c.w, f0, now) != Some(true) {
                    return Err(viol(
                        "C06.farm_closed_with_rewards_due",
                        format!("farm {} still owed {} {} and had not expired, but {} by {} closed it: unclaimed rewards of its users are void", f0.identifier, f0.farm_asset.amount.u128().saturating_sub(f0.claimed_amount.u128()), f0.farm_asset.denom, step.op.kind(), c.w.a.name(&sender)),
                    ));
                }
            }
        }
        // ---- at DryClaims steps: nobody's rightful claim fails because a farm ran dry
        if matches!(step.op, Op::DryClaims) {
            for u in users_with_open(post) {
                let snap = c.w.snapshot();
                c.stats.forks += 1;
                // up to now, and bounded by earlier epochs (others may have claimed later ones)
                let cur = c.w.current_epoch().unwrap_or(0);
                let last = post.last_claimed.get(&u).copied();
                let mut untils: Vec<Option<u64>> = vec![None];
                if let Some(l) = last {
                    if l + 1 < cur {
                        untils.push(Some(l + 1));
                        untils.push(Some(l + (cur - l) / 2));
                    }
                }
                untils.dedup();
                for until_epoch in untils {
                    let o = c.exec_op(&Op::Fm { sender: u.clone(), msg: FmMsg::Claim { until_epoch }, funds: vec![] }, None);
                    c.w.restore(&snap);
                    c.stats.bump(if until_epoch.is_some() { "probe.c06.dry_claim_bounded" } else { "probe.c06.dry_claim" });
                    if !o.ok() && o.err_text().contains("enough funds to pay out the reward") {
                        return Err(viol(
                            "C06.claim_fails_farm_exhausted",
                            format!("{}'s claim (until_epoch {:?}) fails because a farm cannot pay the computed reward (somebody was overpaid, the total weight is below the users' sum, or the farm's budget check counts what others claimed for later epochs)", c.w.a.name(&u), until_epoch),
                        ));
                    }
                }
            }
        }
        // own cursors and windows are cleared when a user leaves (documented: pending rewards are
        // settled before a close and forfeited on an emergency exit)
        let mut open_by: BTreeSet<(String, String)> = BTreeSet::new();
        let mut any_open: BTreeSet<String> = BTreeSet::new();
        for p in post.positions.iter().filter(|p| p.open) {
            open_by.insert((p.receiver.to_string(), p.lp_asset.denom.clone()));
            any_open.insert(p.receiver.to_string());
        }
        self.first_eff.retain(|k, _| open_by.contains(k));
        self.cursor.retain(|u, _| any_open.contains(u));
        if !matches!(&step.op, Op::Fm { msg: FmMsg::Claim { .. }, .. }) {
            c.stats.sig(&[step.op.kind(), &post.farms.len().min(4).to_string(), &any_open.len().to_string()]);
        }
        Ok(())
    }
}
