//! C08 — locked LP can only return to its owner, only after unlocking, and in full.

use std::collections::BTreeMap;

use mantra_dex_std::farm_manager::{ExecuteMsg as FmMsg, Position, PositionAction};
use mantra_dex_std::pool_manager::ExecuteMsg as PmMsg;

use super::util::*;
use crate::sim::{viol, MResult, Monitor, Obs, SimCore};
use crate::trace::{Op, Step};
use crate::world::TxOut;

#[derive(Default)]
pub struct C08;

fn posmap(o: &Obs) -> BTreeMap<String, Position> {
    o.positions.iter().map(|p| (p.identifier.clone(), p.clone())).collect()
}

/// An owner configuration change between a user's close and their withdrawal changes nothing about
/// the withdrawal: whatever leaves on a fork of the current state also leaves, with the same payout,
/// on a fork where the farm manager's owner first changed one configuration value. (Normal withdrawals
/// and full closes; the emergency path legitimately reads the penalty and the epoch manager.)
fn exits_after_config_change(c: &mut SimCore, obs: &Obs) -> MResult {
    let now = c.w.now();
    let owner = match c.w.ownership(&c.w.a.fm).owner {
        Some(o) => o.to_string(),
        None => return Ok(()),
    };
    let cur = c.w.fm_config();
    let variant = (c.step_no / 5) % 5;
    let mut m = FmMsg::UpdateConfig {
        fee_collector_addr: None,
        epoch_manager_addr: None,
        pool_manager_addr: None,
        create_farm_fee: None,
        max_concurrent_farms: None,
        max_farm_epoch_buffer: None,
        min_unlocking_duration: None,
        max_unlocking_duration: None,
        farm_expiration_time: None,
        emergency_unlock_penalty: None,
    };
    let mut normal_only = false;
    if let FmMsg::UpdateConfig { fee_collector_addr, epoch_manager_addr, pool_manager_addr, min_unlocking_duration, max_unlocking_duration, emergency_unlock_penalty, .. } = &mut m {
        match variant {
            0 => *pool_manager_addr = Some(c.w.a.alt[2].to_string()),
            1 => *fee_collector_addr = Some(c.w.a.alt[0].to_string()),
            2 => {
                *epoch_manager_addr = Some(c.w.a.alt[1].to_string());
                normal_only = true;
            }
            3 => {
                *min_unlocking_duration = Some(cur.max_unlocking_duration);
                *max_unlocking_duration = Some(cur.max_unlocking_duration);
                normal_only = true;
            }
            _ => *emergency_unlock_penalty = Some(cosmwasm_std::Decimal::percent(1)),
        }
    }
    let cfg_op = Op::Fm { sender: owner, msg: m, funds: vec![] };
    let mut done = 0;
    for p in obs.positions.iter() {
        let unlocked = !p.open && p.expiring_at.map(|e| e <= now).unwrap_or(false);
        let action = if unlocked {
            PositionAction::Withdraw { identifier: p.identifier.clone(), emergency_unlock: None }
        } else if p.open && !normal_only {
            PositionAction::Close { identifier: p.identifier.clone(), lp_asset: None }
        } else {
            continue;
        };
        if done >= 3 {
            break;
        }
        done += 1;
        let who = p.receiver.to_string();
        let op = Op::Fm { sender: who.clone(), msg: FmMsg::ManagePosition { action }, funds: vec![] };
        let run = |c: &mut SimCore, with_cfg: bool| -> Option<(bool, u128, Option<Position>, String)> {
            let snap = c.fork();
            if with_cfg && !c.exec_op(&cfg_op, None).ok() {
                c.w.restore(&snap);
                return None;
            }
            let b0 = crate::world::bal(&c.w.balances(), &who, &p.lp_asset.denom);
            let o = c.exec_op(&op, None);
            let b1 = crate::world::bal(&c.w.balances(), &who, &p.lp_asset.denom);
            let after = c.w.positions().into_iter().find(|q| q.identifier == p.identifier);
            c.w.restore(&snap);
            Some((o.ok(), b1.saturating_sub(b0), after, o.err_text()))
        };
        let base = run(c, false);
        match base {
            Some((true, ..)) => {}
            _ => continue,
        }
        let base = base.unwrap();
        match run(c, true) {
            None => {
                c.stats.bump("probe.c08.config_change_refused_on_fork");
            }
            Some(alt) => {
                c.stats.bump(if unlocked { "probe.c08.withdraw_after_config_change" } else { "probe.c08.close_after_config_change" });
                if !alt.0 {
                    return Err(viol(
                        if unlocked { "C08.withdraw_refused" } else { "C08.exit_blocked" },
                        format!("{}'s {} of position {} works now but is refused after the owner's configuration change #{variant}: {}", c.w.a.name(&who), if unlocked { "withdrawal of the unlocked" } else { "full close" }, p.identifier, alt.3),
                    ));
                }
                if alt.1 != base.1 || alt.2 != base.2 {
                    return Err(viol(
                        if unlocked { "C08.withdraw_money" } else { "C08.close_effects" },
                        format!("position {}: after the owner's configuration change #{variant} the owner receives {} / the position becomes {:?}; without it {} / {:?}", p.identifier, alt.1, alt.2, base.1, base.2),
                    ));
                }
            }
        }
    }
    Ok(())
}

impl Monitor for C08 {
    fn post(&mut self, c: &mut SimCore, step: &Step, pre: &Obs, out: &TxOut, post: &Obs) -> MResult {
        let now = c.w.now();
        let pm = c.w.fm_config().pool_manager_addr.to_string();
        let fm = c.w.a.fm.to_string();
        let a = posmap(pre);
        let b = posmap(post);
        // ------------------------------------------------------------ an owner can always get out
        // (a position that cannot be closed never unlocks; one that cannot be emergency-withdrawn is
        // stuck): a close / emergency withdrawal by the owner that fails inside the contract
        if let Op::Fm { sender, msg: FmMsg::ManagePosition { action }, .. } = &step.op {
            let id = match action {
                PositionAction::Close { identifier, .. } => Some(identifier),
                PositionAction::Withdraw { identifier, .. } => Some(identifier),
                _ => None,
            };
            if let Some(p0) = id.and_then(|i| a.get(i.as_str())) {
                if p0.receiver.as_str() == sender.as_str() {
                    if let Some(e) = internal_failure(out, step, pre) {
                        return Err(viol("C08.exit_blocked", format!("{} of position {} by its owner fails inside the contract: {e}", step.op.kind(), p0.identifier)));
                    }
                }
            }
        }
        if c.step_no % 7 == 5 {
            derived_exits(c, post, "C08", 6)?;
        }
        if c.step_no % 5 == 2 {
            exits_after_config_change(c, post)?;
        }
        // ------------------------------------------------------------ frame condition
        let mut changed: Vec<String> = vec![];
        for (id, p) in a.iter() {
            match b.get(id) {
                Some(q) if q == p => {}
                _ => changed.push(id.clone()),
            }
        }
        for id in b.keys() {
            if !a.contains_key(id) {
                changed.push(id.clone());
            }
        }
        for id in changed.iter() {
            let owner = a.get(id).or(b.get(id)).unwrap().receiver.to_string();
            let explained = out.ok()
                && match &step.op {
                    Op::Fm { sender, msg: FmMsg::ManagePosition { action }, .. } => {
                        *sender == owner
                            || (*sender == pm && matches!(action, PositionAction::Create { .. } | PositionAction::Expand { .. }))
                    }
                    Op::Pm { sender, msg: PmMsg::ProvideLiquidity { unlocking_duration: Some(_), .. }, .. } => *sender == owner,
                    _ => false,
                };
            if !explained {
                return Err(viol(
                    "C08.frame",
                    format!(
                        "position {id} of {} changed ({:?} -> {:?}) by {} from {} ({})",
                        c.w.a.name(&owner),
                        a.get(id).map(|p| (p.lp_asset.amount, p.open, p.expiring_at)),
                        b.get(id).map(|p| (p.lp_asset.amount, p.open, p.expiring_at)),
                        step.op.kind(),
                        step.op.sender().map(|s| c.w.a.name(s)).unwrap_or_default(),
                        if out.ok() { "ok" } else { "rejected" }
                    ),
                ));
            }
            if let (Some(p), Some(q)) = (a.get(id), b.get(id)) {
                if p.receiver != q.receiver || p.unlocking_duration != q.unlocking_duration || p.lp_asset.denom != q.lp_asset.denom {
                    return Err(viol("C08.identity_changed", format!("position {id}: owner/duration/denom changed")));
                }
                if !p.open && q.open {
                    return Err(viol("C08.reopened", format!("closed position {id} became open")));
                }
            }
        }
        // ------------------------------------------------------------ per message
        let (sender, action, funds) = match &step.op {
            Op::Fm { sender, msg: FmMsg::ManagePosition { action }, funds } => (sender, action, funds),
            _ => return Ok(()),
        };
        let got = deltas(&pre.bal, &post.bal);
        match action {
            PositionAction::Create { receiver, .. } => {
                let for_other = matches!(receiver, Some(r) if r != sender);
                if out.ok() && for_other && *sender != pm {
                    return Err(viol("C08.create_for_other", format!("{} created a position for {:?}", c.w.a.name(sender), receiver)));
                }
                if out.ok() {
                    let newp: Vec<&Position> = b.values().filter(|p| !a.contains_key(&p.identifier)).collect();
                    if newp.len() != 1 || changed.len() != 1 {
                        return Err(viol("C08.create_effects", format!("{} positions appeared / {} changed on one create", newp.len(), changed.len())));
                    }
                    let p = newp[0];
                    let want_owner = receiver.clone().unwrap_or(sender.clone());
                    let amt = funds.first().map(|f| f.amount.u128()).unwrap_or(0);
                    if p.receiver.as_str() != want_owner || !p.open || p.expiring_at.is_some() || p.lp_asset.amount.u128() != amt || funds.len() != 1 || p.lp_asset.denom != funds[0].denom {
                        return Err(viol("C08.create_effects", format!("new position {:?} does not match request (owner {want_owner}, funds {:?})", p, funds)));
                    }
                    let mut exp = BTreeMap::new();
                    add_delta(&mut exp, sender, &funds[0].denom, -(amt as i128));
                    add_delta(&mut exp, &fm, &funds[0].denom, amt as i128);
                    if got != exp {
                        return Err(viol("C08.create_money", format!("deltas [{}] expected [{}]", fmt_deltas(&c.w.a, &got), fmt_deltas(&c.w.a, &exp))));
                    }
                    c.stats.bump(if p.identifier.starts_with("u-") { "probe.c08.explicit_id" } else { "probe.c08.generated_id" });
                }
            }
            PositionAction::Expand { identifier } => {
                let p = a.get(identifier);
                let must_reject = match p {
                    None => true,
                    Some(p) => !p.open || !(p.receiver.as_str() == sender || *sender == pm),
                };
                if out.ok() && must_reject {
                    return Err(viol("C08.expand_unauthorised", format!("{} expanded position {identifier} ({:?})", c.w.a.name(sender), p.map(|p| (c.w.a.name(p.receiver.as_str()), p.open)))));
                }
                if out.ok() {
                    let p = p.unwrap();
                    let q = b.get(identifier);
                    let amt = funds.first().map(|f| f.amount.u128()).unwrap_or(0);
                    let ok = q.map(|q| q.lp_asset.amount.u128() == p.lp_asset.amount.u128() + amt && q.open && q.expiring_at.is_none()).unwrap_or(false);
                    if !ok || funds.len() != 1 || funds[0].denom != p.lp_asset.denom || changed.len() != 1 {
                        return Err(viol("C08.expand_effects", format!("expand of {identifier} by {:?}: {:?} -> {:?}", funds, p.lp_asset, q.map(|q| &q.lp_asset))));
                    }
                    let mut exp = BTreeMap::new();
                    add_delta(&mut exp, sender, &funds[0].denom, -(amt as i128));
                    add_delta(&mut exp, &fm, &funds[0].denom, amt as i128);
                    if got != exp {
                        return Err(viol("C08.expand_money", format!("deltas [{}] expected [{}]", fmt_deltas(&c.w.a, &got), fmt_deltas(&c.w.a, &exp))));
                    }
                }
            }
            PositionAction::Close { identifier, lp_asset } => {
                let p = a.get(identifier);
                let must_reject = match p {
                    None => true,
                    Some(p) => {
                        p.receiver.as_str() != sender
                            || !p.open
                            || lp_asset.as_ref().map(|l| l.amount > p.lp_asset.amount || l.denom != p.lp_asset.denom).unwrap_or(false)
                    }
                };
                if out.ok() && must_reject {
                    return Err(viol("C08.close_unauthorised", format!("{} closed {identifier} with {:?} (position {:?})", c.w.a.name(sender), lp_asset, p.map(|p| (c.w.a.name(p.receiver.as_str()), p.open, p.lp_asset.amount)))));
                }
                if out.ok() {
                    let p = p.unwrap();
                    if !got.is_empty() {
                        return Err(viol("C08.close_money", format!("closing moved tokens: [{}]", fmt_deltas(&c.w.a, &got))));
                    }
                    let partial = lp_asset.as_ref().map(|l| l.amount < p.lp_asset.amount).unwrap_or(false);
                    let expiring = Some(now + p.unlocking_duration);
                    if !partial {
                        let q = b.get(identifier);
                        let ok = q.map(|q| !q.open && q.expiring_at == expiring && q.lp_asset == p.lp_asset).unwrap_or(false);
                        if !ok || changed.len() != 1 {
                            return Err(viol("C08.close_effects", format!("full close of {identifier}: {:?} -> {:?} (expected closed, expiring {:?})", p, q, expiring)));
                        }
                        c.stats.bump("probe.c08.full_close");
                    } else {
                        let cpart = lp_asset.as_ref().unwrap().amount.u128();
                        let q = b.get(identifier);
                        let newp: Vec<&Position> = b.values().filter(|x| !a.contains_key(&x.identifier)).collect();
                        let ok_rem = q.map(|q| q.open && q.expiring_at.is_none() && q.lp_asset.amount.u128() == p.lp_asset.amount.u128() - cpart).unwrap_or(false);
                        let ok_new = newp.len() == 1 && {
                            let n = newp[0];
                            !n.open
                                && n.expiring_at == expiring
                                && n.lp_asset.amount.u128() == cpart
                                && n.lp_asset.denom == p.lp_asset.denom
                                && n.receiver == p.receiver
                                && n.unlocking_duration == p.unlocking_duration
                        };
                        if !ok_rem || !ok_new || changed.len() != if cpart == 0 { 1 } else { 2 } {
                            return Err(viol("C08.partial_close_effects", format!("partial close of {cpart} from {:?}: remainder {:?}, new {:?}", p, q, newp)));
                        }
                        c.stats.bump("probe.c08.partial_close");
                    }
                }
            }
            PositionAction::Withdraw { identifier, emergency_unlock } => {
                let p = a.get(identifier);
                let unlocked = p.map(|p| !p.open && p.expiring_at.map(|e| e <= now).unwrap_or(false)).unwrap_or(false);
                let emergency = *emergency_unlock == Some(true) && !unlocked;
                let is_owner = p.map(|p| p.receiver.as_str() == sender).unwrap_or(false);
                if let Some(p) = p {
                    if let Some(e) = p.expiring_at {
                        if !p.open && (now == e || now + 1 == e || now == e + 1) {
                            c.stats.bump(&format!("probe.c08.withdraw_at_unlock{:+}", now as i128 - e as i128));
                        }
                    }
                }
                if out.ok() && (p.is_none() || !is_owner) {
                    return Err(viol("C08.withdraw_unauthorised", format!("{} withdrew position {identifier} of {:?}", c.w.a.name(sender), p.map(|p| c.w.a.name(p.receiver.as_str())))));
                }
                if !emergency {
                    if out.ok() && !unlocked {
                        return Err(viol("C08.early_withdraw", format!("normal withdrawal of {identifier} accepted at {now}, position {:?}", p)));
                    }
                    if out.ok() {
                        let p = p.unwrap();
                        if b.contains_key(identifier) || changed.len() != 1 {
                            return Err(viol("C08.withdraw_effects", format!("position {identifier} still present after withdrawal")));
                        }
                        let mut exp = BTreeMap::new();
                        add_delta(&mut exp, sender, &p.lp_asset.denom, p.lp_asset.amount.u128() as i128);
                        add_delta(&mut exp, &fm, &p.lp_asset.denom, -(p.lp_asset.amount.u128() as i128));
                        if got != exp {
                            return Err(viol("C08.withdraw_money", format!("deltas [{}] expected [{}] (recorded amount {})", fmt_deltas(&c.w.a, &got), fmt_deltas(&c.w.a, &exp), p.lp_asset.amount)));
                        }
                    }
                    // availability from the unlock instant on
                    if !out.ok() && is_owner && unlocked && funds.is_empty() && step.fault.is_none() && out.report.frozen_fired == 0 {
                        return Err(viol("C08.withdraw_refused", format!("owner's withdrawal of unlocked {identifier} at {now} (expiring_at {:?}) refused: {}", p.and_then(|p| p.expiring_at), out.err_text())));
                    }
                }
            }
        }
        // abstract state: operation, outcome, who sends relative to the position, position state and
        // where the clock stands relative to its unlock instant
        let target: Option<&Position> = match action {
            PositionAction::Create { .. } => None,
            PositionAction::Expand { identifier } | PositionAction::Close { identifier, .. } | PositionAction::Withdraw { identifier, .. } => a.get(identifier),
        };
        let who = match target {
            _ if *sender == pm => "pm",
            Some(p) if p.receiver.as_str() == sender => "owner",
            Some(_) => "other",
            None => "n/a",
        };
        let state = match target {
            None => "none",
            Some(p) if p.open => "open",
            Some(p) => match p.expiring_at {
                Some(e) if now < e => "locked",
                Some(e) if now == e => "unlock_instant",
                _ => "unlocked",
            },
        };
        c.stats.sig(&[step.op.kind(), if out.ok() { "ok" } else { "rej" }, who, state, &changed.len().to_string(), if funds.is_empty() { "nofunds" } else { "funds" }]);
        Ok(())
    }
}
