//! C17 — per-pool feature switches stop exactly the switched operation on every path.

use std::collections::BTreeMap;

use cosmwasm_std::Addr;
use mantra_dex_std::pool_manager::{ExecuteMsg as PmMsg, FeatureToggle, PoolStatus, SwapOperation};

use super::util::*;
use crate::sim::{coins_to_map, viol, MResult, Monitor, Obs, SimCore};
use crate::trace::{Op, Step};
use crate::world::{Snap, TxOut};

#[derive(Default)]
pub struct C17 {
    reference: Option<(bool, BTreeMap<(String, String), i128>, Vec<(String, String)>)>,
    snap: Option<Snap>,
}

fn touches(op: &Op, pre: &Obs) -> Option<(Vec<(String, &'static str)>, &'static str)> {
    // (pool, feature) pairs this operation needs enabled
    if let Op::Pm { msg, funds, .. } = op {
        match msg {
            PmMsg::Swap { pool_identifier, .. } => Some((vec![(pool_identifier.clone(), "swap")], "swap")),
            PmMsg::ExecuteSwapOperations { operations, .. } => Some((
                operations
                    .iter()
                    .map(|o| {
                        let SwapOperation::MantraSwap { pool_identifier, .. } = o;
                        (pool_identifier.clone(), "swap")
                    })
                    .collect(),
                "route",
            )),
            PmMsg::WithdrawLiquidity { pool_identifier } => Some((vec![(pool_identifier.clone(), "withdraw")], "withdraw")),
            PmMsg::ProvideLiquidity { pool_identifier, .. } => {
                let single = coins_to_map(funds).len() == 1;
                let mut v = vec![(pool_identifier.clone(), "deposit")];
                // a single-asset deposit swaps internally; it only gets that far on a funded 2-asset pool
                if single {
                    if let Some(p) = pre.pool(pool_identifier) {
                        if p.pool_info.assets.len() == 2 && p.pool_info.assets.iter().all(|a| !a.amount.is_zero()) {
                            v.push((pool_identifier.clone(), "swap"));
                        }
                    }
                }
                Some((v, if single { "deposit_single" } else { "deposit" }))
            }
            _ => None,
        }
    } else {
        None
    }
}

fn enabled(st: &PoolStatus, feature: &str) -> bool {
    match feature {
        "swap" => st.swaps_enabled,
        "deposit" => st.deposits_enabled,
        _ => st.withdrawals_enabled,
    }
}

impl Monitor for C17 {
    fn pre(&mut self, c: &mut SimCore, step: &Step, pre: &Obs) -> MResult {
        self.reference = None;
        self.snap = Some(c.w.snapshot());
        if touches(&step.op, pre).is_none() {
            return Ok(());
        }
        // reference outcome: same operation with every switch of every pool enabled
        let owner: Option<Addr> = c.w.ownership(&c.w.a.pm).owner;
        let owner = match owner {
            Some(o) => o,
            None => return Ok(()),
        };
        let snap = c.fork();
        for p in pre.pools.iter() {
            let st = &p.pool_info.status;
            if !(st.swaps_enabled && st.deposits_enabled && st.withdrawals_enabled) {
                let pm = c.w.a.pm.clone();
                let r = c.w.exec(
                    &owner,
                    &pm,
                    &PmMsg::UpdateConfig {
                        fee_collector_addr: None,
                        farm_manager_addr: None,
                        pool_creation_fee: None,
                        feature_toggle: Some(FeatureToggle {
                            pool_identifier: p.pool_info.pool_identifier.clone(),
                            withdrawals_enabled: Some(true),
                            deposits_enabled: Some(true),
                            swaps_enabled: Some(true),
                        }),
                    },
                    &[],
                    None,
                );
                if !r.ok() {
                    c.w.restore(&snap);
                    return Err(viol("C17.reenable_failed", format!("owner could not re-enable {}: {}", p.pool_info.pool_identifier, r.err_text())));
                }
            }
        }
        let b0 = c.w.balances();
        let o = c.exec_op(&step.op, step.fault.clone());
        let b1 = c.w.balances();
        let attrs: Vec<(String, String)> = o.attrs().into_iter().filter(|(k, _)| k != "pool_reserves" || true).collect();
        self.reference = Some((o.ok(), deltas(&b0, &b1), attrs));
        c.w.restore(&snap);
        Ok(())
    }

    fn post(&mut self, c: &mut SimCore, step: &Step, pre: &Obs, out: &TxOut, post: &Obs) -> MResult {
        let pre_snap = self.snap.take().expect("snap");
        // ---- switch bits change only through an accepted owner toggle naming that pool
        let toggled: Option<&FeatureToggle> = match &step.op {
            Op::Pm { msg: PmMsg::UpdateConfig { feature_toggle: Some(ft), .. }, .. } if out.ok() => Some(ft),
            _ => None,
        };
        for p in post.pools.iter() {
            let id = &p.pool_info.pool_identifier;
            let now = &p.pool_info.status;
            match pre.pool(id) {
                None => {
                    if !(now.swaps_enabled && now.deposits_enabled && now.withdrawals_enabled) {
                        return Err(viol("C17.new_pool_not_enabled", format!("new pool {id} starts with {:?}", now)));
                    }
                }
                Some(q) => {
                    let was = &q.pool_info.status;
                    let mut want = was.clone();
                    if let Some(ft) = toggled {
                        if &ft.pool_identifier == id {
                            if let Some(v) = ft.swaps_enabled {
                                want.swaps_enabled = v;
                            }
                            if let Some(v) = ft.deposits_enabled {
                                want.deposits_enabled = v;
                            }
                            if let Some(v) = ft.withdrawals_enabled {
                                want.withdrawals_enabled = v;
                            }
                        }
                    }
                    if *now != want {
                        return Err(viol(
                            "C17.switch_bits",
                            format!("pool {id} switches {:?} -> {:?}, expected {:?} after {}", was, now, want, step.op.kind()),
                        ));
                    }
                }
            }
        }
        if toggled.is_some() {
            c.stats.bump("probe.c17.toggle_applied");
        }
        // ---- operations
        let (need, label) = match touches(&step.op, pre) {
            Some(x) => x,
            None => return Ok(()),
        };
        let mut blocked: Option<(String, &str)> = None;
        for (pid, feat) in need.iter() {
            if let Some(p) = pre.pool(pid) {
                if !enabled(&p.pool_info.status, feat) {
                    blocked = Some((pid.clone(), feat));
                    break;
                }
            }
        }
        let any_disabled_somewhere = pre.pools.iter().any(|p| {
            let s = &p.pool_info.status;
            !(s.swaps_enabled && s.deposits_enabled && s.withdrawals_enabled)
        });
        if let Some((pid, feat)) = blocked {
            c.stats.bump(&format!("probe.c17.blocked.{label}"));
            if out.ok() {
                return Err(viol("C17.disabled_op_executed", format!("{label} executed although {feat} is disabled on pool {pid}")));
            }
            if !c.w.storage_eq(&pre_snap) {
                return Err(viol("C17.disabled_op_trace", format!("{label} on disabled pool {pid} rejected but state changed")));
            }
            c.stats.sig(&["blocked", label, feat]);
            return Ok(());
        }
        if let Some((ref_ok, ref_delta, ref_attrs)) = self.reference.take() {
            if any_disabled_somewhere {
                c.stats.bump(&format!("probe.c17.unblocked_with_other_switch_off.{label}"));
            }
            let got = deltas(&pre.bal, &post.bal);
            if ref_ok != out.ok() {
                return Err(viol(
                    "C17.other_op_affected",
                    format!(
                        "{label}: outcome {} with current switches but {} with everything enabled ({})",
                        if out.ok() { "accepted" } else { "rejected" },
                        if ref_ok { "accepted" } else { "rejected" },
                        out.err_text()
                    ),
                ));
            }
            if got != ref_delta {
                return Err(viol(
                    "C17.other_op_affected",
                    format!("{label}: balance deltas [{}] differ from all-enabled reference [{}]", fmt_deltas(&c.w.a, &got), fmt_deltas(&c.w.a, &ref_delta)),
                ));
            }
            if out.ok() && out.attrs() != ref_attrs {
                return Err(viol("C17.other_op_affected", format!("{label}: response attributes differ from the all-enabled reference")));
            }
            let st: String = need
                .iter()
                .filter_map(|(pid, _)| pre.pool(pid))
                .map(|p| {
                    let s = &p.pool_info.status;
                    format!("{}{}{}", s.swaps_enabled as u8, s.deposits_enabled as u8, s.withdrawals_enabled as u8)
                })
                .collect::<Vec<_>>()
                .join("|");
            c.stats.sig(&["free", label, &st, if out.ok() { "ok" } else { "rej" }]);
        }
        Ok(())
    }
}
