//! C11 — the farm lifecycle conserves funds and respects owners and limits.

use std::collections::BTreeMap;

use mantra_dex_std::farm_manager::{ExecuteMsg as FmMsg, Farm, FarmAction};

use super::c09::farm_expired;
use super::util::*;
use crate::sim::{coins_to_map, viol, MResult, Monitor, Obs, SimCore};
use crate::trace::{Op, Step};
use crate::world::{bal, TxOut};

#[derive(Default)]
pub struct C11;

fn remainder(f: &Farm) -> u128 {
    f.farm_asset.amount.u128().saturating_sub(f.claimed_amount.u128())
}

impl Monitor for C11 {
    fn post(&mut self, c: &mut SimCore, step: &Step, pre: &Obs, out: &TxOut, post: &Obs) -> MResult {
        let now = c.w.now();
        let fm = c.w.a.fm.to_string();
        let cfg = c.w.fm_config();
        // ---- limit: never more unexpired farms per LP token than configured (after every step)
        let mut per_lp: BTreeMap<String, u32> = BTreeMap::new();
        for f in post.farms.iter() {
            let exp = farm_expired(&c.w, f, now).unwrap_or(false);
            if !exp {
                *per_lp.entry(f.lp_denom.clone()).or_insert(0) += 1;
            }
        }
        for (lp, n) in per_lp.iter() {
            if *n > cfg.max_concurrent_farms {
                return Err(viol("C11.too_many_farms", format!("{n} unexpired farms on {lp}, limit {}", cfg.max_concurrent_farms)));
            }
        }
        // ---- a creation is never refused because one of the contract's own queries fails (another
        // farm's end epoch the epoch manager cannot represent must not block the LP token)
        if let Op::Fm { msg: FmMsg::ManageFarm { action: FarmAction::Create { params } }, .. } = &step.op {
            // (the creation's own epochs are ordinary numbers: absurd ones may fail any way they like)
            let sane = params.start_epoch.unwrap_or(0) < 1_000_000_000 && params.preliminary_end_epoch.unwrap_or(0) < 1_000_000_000;
            if let Some(e) = super::util::internal_failure(out, step, pre).filter(|_| sane) {
                if e.contains("Querier") || e.contains("panicked") {
                    return Err(viol("C11.create_blocked_by_internal_error", format!("farm creation fails inside the contract: {e}")));
                }
            }
        }
        // ---- farms change only through farm messages and claims
        let (sender, action, funds) = match &step.op {
            Op::Fm { sender, msg: FmMsg::ManageFarm { action }, funds } => (sender, action, funds),
            _ => {
                // claims only raise claimed_amount; nothing else touches a farm
                for f in pre.farms.iter() {
                    match post.farm(&f.identifier) {
                        Some(g) => {
                            let mut g2 = g.clone();
                            g2.claimed_amount = f.claimed_amount;
                            let is_claim = matches!(&step.op, Op::Fm { msg: FmMsg::Claim { .. }, .. });
                            if g2 != *f || (g.claimed_amount != f.claimed_amount && !(is_claim && out.ok() && g.claimed_amount > f.claimed_amount)) {
                                return Err(viol("C11.farm_changed_outside_lifecycle", format!("farm {} changed by {}: {:?} -> {:?}", f.identifier, step.op.kind(), f, g)));
                            }
                        }
                        None => return Err(viol("C11.farm_changed_outside_lifecycle", format!("farm {} vanished by {}", f.identifier, step.op.kind()))),
                    }
                }
                if post.farms.len() != pre.farms.len() {
                    return Err(viol("C11.farm_changed_outside_lifecycle", format!("farm count changed by {}", step.op.kind())));
                }
                return Ok(());
            }
        };
        let contract_owner = c.w.ownership(&c.w.a.fm).owner.map(|a| a.to_string());
        let epoch = c.w.current_epoch();
        let got = deltas(&pre.bal, &post.bal);
        let frozen_hit = out.report.frozen_fired > 0;
        // farms of the pre-state that are gone (or replaced under the same id) after this message
        let closed: Vec<&Farm> = pre.farms.iter().filter(|f| post.farm(&f.identifier).map(|g| g != *f).unwrap_or(true)).collect();
        let created: Vec<&Farm> = post.farms.iter().filter(|g| pre.farm(&g.identifier).map(|f| f != *g).unwrap_or(true)).collect();
        if !out.ok() {
            let who = match action {
                FarmAction::Create { .. } => "creator",
                FarmAction::Expand { params } => match params.farm_identifier.as_ref().and_then(|i| pre.farm(i)) {
                    Some(f) if f.owner.as_str() == sender => "owner",
                    Some(_) => "other",
                    None => "nofarm",
                },
                FarmAction::Close { farm_identifier } => match pre.farm(farm_identifier) {
                    Some(f) if f.owner.as_str() == sender => "owner",
                    Some(_) if contract_owner.as_deref() == Some(sender.as_str()) => "contract_owner",
                    Some(_) => "other",
                    None => "nofarm",
                },
            };
            c.stats.sig(&[step.op.kind(), "rej", who, &funds.len().to_string(), if cfg.create_farm_fee.amount.is_zero() { "fee0" } else { "fee+" }]);
            // ---- a well-formed creation is accepted (every fee configuration must be usable): exact
            // funds, ordinary epochs inside the buffer, a known LP token with a free slot, no
            // identifier of its own, nothing injected or frozen
            if let FarmAction::Create { params } = action {
                let fee = &cfg.create_farm_fee;
                let reward = &params.farm_asset;
                let cur = epoch.unwrap_or(u64::MAX);
                let start = params.start_epoch.unwrap_or(cur.saturating_add(1));
                let end = params.preliminary_end_epoch.unwrap_or(start.saturating_add(14));
                let paid = coins_to_map(funds);
                let mut want: BTreeMap<String, u128> = BTreeMap::new();
                *want.entry(reward.denom.clone()).or_insert(0) += reward.amount.u128();
                if !fee.amount.is_zero() {
                    *want.entry(fee.denom.clone()).or_insert(0) += fee.amount.u128();
                }
                let lp_known = pre.pools.iter().any(|p| p.pool_info.lp_denom == params.lp_denom);
                let live_on_lp = pre.farms.iter().filter(|f| f.lp_denom == params.lp_denom && farm_expired(&c.w, f, now) != Some(true)).count() as u32;
                let affordable = funds.iter().all(|f| bal(&pre.bal, sender, &f.denom) >= f.amount.u128());
                let span = end.saturating_sub(start).max(1) as u128;
                let well_formed = epoch.is_some()
                    && step.fault.is_none()
                    && out.report.fault_fired == 0
                    && out.report.frozen_fired == 0
                    && crate::seams::get_frozen().is_empty()
                    && params.farm_identifier.is_none()
                    && params.curve.is_none()
                    && lp_known
                    && paid == want
                    && affordable
                    && reward.amount.u128() >= 1000
                    && reward.amount.u128() >= span
                    && start > cur
                    && start <= cur.saturating_add(cfg.max_farm_epoch_buffer as u64)
                    && start < end
                    && end < 1_000_000_000
                    && live_on_lp < cfg.max_concurrent_farms;
                if well_formed {
                    c.stats.bump("probe.c11.well_formed_create_refused");
                    return Err(viol(
                        "C11.create_refused",
                        format!(
                            "well-formed creation refused (fee {fee}, reward {reward}, funds {:?}, epochs {start}..{end} at {cur}, {live_on_lp}/{} unexpired farms on the LP token): {}",
                            paid, cfg.max_concurrent_farms, out.err_text().rsplit(": ").next().unwrap_or("")
                        ),
                    ));
                }
            }
            return Ok(());
        }
        // expected money movement
        let mut exp: BTreeMap<(String, String), i128> = BTreeMap::new();
        match action {
            FarmAction::Create { params } => {
                if created.len() != 1 {
                    return Err(viol("C11.create_effects", format!("{} farms appeared on one create", created.len())));
                }
                let g = created[0];
                // every farm closed by this create must have been expired, and on the same LP token
                for f in closed.iter() {
                    let was_expired = farm_expired(&c.w, f, now);
                    if was_expired == Some(false) || f.lp_denom != params.lp_denom {
                        return Err(viol("C11.live_farm_closed_by_create", format!("create closed farm {} (expired={:?}, lp {})", f.identifier, was_expired, f.lp_denom)));
                    }
                    c.stats.bump("probe.c11.auto_closed_expired_farm");
                }
                let fee = cfg.create_farm_fee.clone();
                let reward = params.farm_asset.clone();
                // the farm as recorded
                let cur = epoch.unwrap_or(0);
                let start = params.start_epoch.unwrap_or(cur + 1);
                let end = params.preliminary_end_epoch.unwrap_or(start.saturating_add(14));
                let span = end.saturating_sub(start).max(1) as u128;
                let ok = g.owner.as_str() == sender
                    && g.farm_asset == reward
                    && g.claimed_amount.is_zero()
                    && g.lp_denom == params.lp_denom
                    && g.start_epoch == start
                    && g.preliminary_end_epoch == end
                    && g.emission_rate.u128() == reward.amount.u128() / span;
                if !ok {
                    return Err(viol("C11.create_effects", format!("recorded farm {:?} does not match params {:?} (start {start} end {end})", g, params)));
                }
                // epoch-range validation
                let buffer = cfg.max_farm_epoch_buffer as u64;
                if !(start > cur && start <= cur.saturating_add(buffer) && start < end) {
                    return Err(viol("C11.epoch_range", format!("farm accepted with start {start} end {end} at epoch {cur}, buffer {buffer}")));
                }
                if reward.amount.u128() < 1000 {
                    return Err(viol("C11.create_effects", format!("farm accepted with reward {} below the minimum", reward.amount)));
                }
                // money: creator pays exactly reward + fee; collector gets the fee; overpayment refunded
                add_delta(&mut exp, sender, &reward.denom, -(reward.amount.u128() as i128));
                add_delta(&mut exp, &fm, &reward.denom, reward.amount.u128() as i128);
                if !fee.amount.is_zero() {
                    add_delta(&mut exp, sender, &fee.denom, -(fee.amount.u128() as i128));
                    add_delta(&mut exp, &cfg.fee_collector_addr.to_string(), &fee.denom, fee.amount.u128() as i128);
                }
                c.stats.bump(&format!(
                    "probe.c11.create.fee_{}_{}",
                    if fee.amount.is_zero() { "zero" } else { "pos" },
                    if fee.denom == reward.denom { "same_denom" } else { "other_denom" }
                ));
                let paid = coins_to_map(funds);
                let over = paid.get(&fee.denom).copied().unwrap_or(0) > fee.amount.u128() + if fee.denom == reward.denom { reward.amount.u128() } else { 0 };
                if over {
                    c.stats.bump("probe.c11.fee_overpaid_refunded");
                }
            }
            FarmAction::Expand { params } => {
                let id = params.farm_identifier.clone().unwrap_or_default();
                let f = match pre.farm(&id) {
                    Some(f) => f,
                    None => return Err(viol("C11.expand_effects", format!("expand of unknown farm {id} accepted"))),
                };
                if f.owner.as_str() != sender {
                    return Err(viol("C11.expand_unauthorised", format!("{} expanded farm {id} of {}", c.w.a.name(sender), c.w.a.name(f.owner.as_str()))));
                }
                let cur = epoch.unwrap_or(u64::MAX);
                if cur >= f.preliminary_end_epoch || farm_expired(&c.w, f, now) == Some(true) {
                    return Err(viol("C11.expand_after_end", format!("farm {id} expanded at epoch {cur}, end {} (expired {:?})", f.preliminary_end_epoch, farm_expired(&c.w, f, now))));
                }
                let amt = params.farm_asset.amount.u128();
                let rate = f.emission_rate.u128();
                let paid = coins_to_map(funds);
                if paid.len() != 1 || paid.get(&f.farm_asset.denom).copied() != Some(amt) || rate == 0 || amt % rate != 0 {
                    return Err(viol("C11.expand_effects", format!("expand accepted with funds {:?} for amount {amt} (rate {rate}, denom {})", funds, f.farm_asset.denom)));
                }
                let g = post.farm(&id);
                let ok = g
                    .map(|g| {
                        g.farm_asset.amount.u128() == f.farm_asset.amount.u128() + amt
                            && g.preliminary_end_epoch as u128 == f.preliminary_end_epoch as u128 + amt / rate
                            && g.claimed_amount == f.claimed_amount
                            && g.emission_rate == f.emission_rate
                            && g.owner == f.owner
                            && g.start_epoch == f.start_epoch
                            && g.lp_denom == f.lp_denom
                    })
                    .unwrap_or(false);
                if !ok || created.len() != 1 || closed.len() != 1 {
                    return Err(viol("C11.expand_effects", format!("expand by {amt}: {:?} -> {:?}", f, g)));
                }
                add_delta(&mut exp, sender, &f.farm_asset.denom, -(amt as i128));
                add_delta(&mut exp, &fm, &f.farm_asset.denom, amt as i128);
            }
            FarmAction::Close { farm_identifier } => {
                let f = match pre.farm(farm_identifier) {
                    Some(f) => f,
                    None => return Err(viol("C11.close_effects", format!("close of unknown farm {farm_identifier} accepted"))),
                };
                if !(f.owner.as_str() == sender || contract_owner.as_deref() == Some(sender.as_str())) {
                    return Err(viol("C11.close_unauthorised", format!("{} closed farm {farm_identifier} of {}", c.w.a.name(sender), c.w.a.name(f.owner.as_str()))));
                }
                if post.farm(farm_identifier).is_some() || closed.len() != 1 || !created.is_empty() {
                    return Err(viol("C11.close_effects", format!("after close: farm present={}, closed={}, created={}", post.farm(farm_identifier).is_some(), closed.len(), created.len())));
                }
                c.stats.bump(if f.owner.as_str() == sender { "probe.c11.closed_by_farm_owner" } else { "probe.c11.closed_by_contract_owner" });
            }
        }
        // refunds of every closed farm: exactly the unclaimed remainder, to its owner, nobody else
        if !matches!(action, FarmAction::Expand { .. }) {
            for f in closed.iter() {
                let r = remainder(f);
                add_delta(&mut exp, f.owner.as_str(), &f.farm_asset.denom, r as i128);
                add_delta(&mut exp, &fm, &f.farm_asset.denom, -(r as i128));
            }
        }
        if got != exp {
            // the one tolerated deviation: a frozen refund stays with the farm manager
            let mut ok = false;
            let fault_sig = step.fault.as_ref().filter(|f| f.kind == crate::seams::CallKind::BankSend && out.report.fault_fired > 0).map(|f| f.sig.clone());
            if frozen_hit || fault_sig.is_some() {
                let mut exp2 = exp.clone();
                let frozen = crate::seams::get_frozen();
                // a sampled fault fails ONE call; two closed farms may have identical refunds
                let mut sampled_left = out.report.fault_fired;
                for f in closed.iter() {
                    let r = remainder(f);
                    let sig = format!("{}->{}:{}{}", fm, f.owner, r, f.farm_asset.denom);
                    let by_freeze = frozen.iter().any(|(d, rc)| *d == f.farm_asset.denom && rc == f.owner.as_str());
                    let by_fault = !by_freeze && sampled_left > 0 && fault_sig.as_deref() == Some(sig.as_str());
                    if by_fault {
                        sampled_left -= 1;
                    }
                    let undelivered = by_freeze || by_fault;
                    if undelivered {
                        add_delta(&mut exp2, f.owner.as_str(), &f.farm_asset.denom, -(r as i128));
                        add_delta(&mut exp2, &fm, &f.farm_asset.denom, r as i128);
                    }
                }
                ok = got == exp2;
                if ok {
                    c.stats.bump("probe.c11.refund_undeliverable_tolerated");
                }
            }
            if !ok {
                let mut v = viol(
                    "C11.money",
                    format!("{}: balance deltas [{}] expected [{}]", step.op.kind(), fmt_deltas(&c.w.a, &got), fmt_deltas(&c.w.a, &exp)),
                );
                // known-finding envelope S2: zero creation fee in a denom other than the reward:
                // exactly one unrelated extra coin is accepted and kept by the farm manager
                if let FarmAction::Create { params } = action {
                    let fee = &cfg.create_farm_fee;
                    if fee.amount.is_zero() && fee.denom != params.farm_asset.denom && funds.len() == 2 {
                        let mut diff = got.clone();
                        for (k, v) in exp.iter() {
                            add_delta(&mut diff, &k.0, &k.1, -*v);
                        }
                        let extra: Vec<_> = funds.iter().filter(|f| f.denom != params.farm_asset.denom).collect();
                        if extra.len() == 1 {
                            let e = extra[0];
                            let mut want = BTreeMap::new();
                            add_delta(&mut want, sender, &e.denom, -(e.amount.u128() as i128));
                            add_delta(&mut want, &fm, &e.denom, e.amount.u128() as i128);
                            if diff == want {
                                v.finding = Some("S2-zero-fee-needs-second-coin".into());
                                v.truncate = false;
                            }
                        }
                    }
                }
                return Err(v);
            }
        }
        let phase = |f: &Farm| -> &'static str {
            match (epoch, farm_expired(&c.w, f, now)) {
                (_, Some(true)) => "expired",
                (Some(e), _) if e < f.start_epoch => "future",
                (Some(e), _) if e >= f.preliminary_end_epoch => "ended",
                _ => "active",
            }
        };
        let ph: Vec<&str> = closed.iter().map(|f| phase(f)).collect();
        c.stats.sig(&[
            step.op.kind(),
            "ok",
            &ph.join("+"),
            &cfg.max_concurrent_farms.to_string(),
            if cfg.create_farm_fee.amount.is_zero() { "fee0" } else { "fee+" },
            if cfg.create_farm_fee.denom == match action { FarmAction::Create { params } | FarmAction::Expand { params } => params.farm_asset.denom.clone(), _ => String::new() } { "samedenom" } else { "otherdenom" },
            &funds.len().to_string(),
            if frozen_hit { "frozen" } else { "-" },
        ]);
        Ok(())
    }
}
