//! C12 — swap quotes equal execution.

use cosmwasm_std::{coin, Coin, Decimal, Uint128};
use mantra_dex_std::pool_manager::{
    ExecuteMsg as PmMsg, PoolType, QueryMsg, ReverseSimulationResponse, SimulateSwapOperationsResponse,
    SimulationResponse, SwapOperation,
};

use crate::sim::{coins_to_map, viol, MResult, Monitor, Obs, SimCore};
use crate::trace::{Op, Step};
use crate::world::TxOut;

#[derive(Default)]
pub struct C12;

fn half() -> Option<Decimal> {
    Some(Decimal::percent(50))
}

impl C12 {
    /// quote, then execute the same offer on a fork with the widest tolerance, compare
    fn direct(&self, c: &mut SimCore, sender: &str, pool: &str, offer: &Coin, ask: &str, pre: &Obs) -> MResult {
        let q: Result<SimulationResponse, _> = c.w.app.wrap().query_wasm_smart(
            c.w.a.pm.to_string(),
            &QueryMsg::Simulation { offer_asset: offer.clone(), ask_asset_denom: ask.to_string(), pool_identifier: pool.to_string() },
        );
        let q = match q {
            Ok(q) => q,
            Err(qe) => {
                c.stats.bump("probe.c12.quote_refused");
                // a swap that executes has a quote: the query may refuse only what execution refuses
                let snap = c.fork();
                let op = Op::Pm {
                    sender: sender.to_string(),
                    msg: PmMsg::Swap { ask_asset_denom: ask.to_string(), belief_price: None, max_slippage: half(), receiver: None, pool_identifier: pool.to_string() },
                    funds: vec![offer.clone()],
                };
                let o = c.exec_op(&op, None);
                c.w.restore(&snap);
                if o.ok() {
                    return Err(viol(
                        "C12.executes_unquoted",
                        format!("offer {offer} on {pool} for {ask}: the swap executes (return {:?}) but the Simulation query refuses to quote it: {qe}", o.attr("return_amount")),
                    ));
                }
                return Ok(());
            }
        };
        let snap = c.fork();
        let op = Op::Pm {
            sender: sender.to_string(),
            msg: PmMsg::Swap {
                ask_asset_denom: ask.to_string(),
                belief_price: None,
                max_slippage: half(),
                receiver: None,
                pool_identifier: pool.to_string(),
            },
            funds: vec![offer.clone()],
        };
        let bal_of = |c: &SimCore, who: &str, d: &str| -> u128 { c.w.app.wrap().query_balance(who, d).map(|x| x.amount.u128()).unwrap_or(0) };
        let fc = c.w.pm_config().fee_collector_addr.to_string();
        let (b0, f0) = (bal_of(c, sender, ask), bal_of(c, &fc, ask));
        let o = c.exec_op(&op, None);
        let (b1, f1) = (bal_of(c, sender, ask), bal_of(c, &fc, ask));
        c.w.restore(&snap);
        if !o.ok() {
            c.stats.bump("probe.c12.exec_rejected_after_quote");
            return Ok(());
        }
        // what the quote promises is what arrives: the trader's balance of the asked asset grows by
        // the quoted return, the fee collector's by the quoted protocol fee (not merely the events)
        if sender != fc && offer.denom != ask {
            if b1.saturating_sub(b0) != q.return_amount.u128() {
                return Err(viol(
                    "C12.quote_vs_swap",
                    format!("offer {offer} on {pool} for {ask}: quoted return {} but the trader's balance grew by {}", q.return_amount, b1.saturating_sub(b0)),
                ));
            }
            if f1.saturating_sub(f0) != q.protocol_fee_amount.u128() {
                return Err(viol(
                    "C12.quote_vs_swap",
                    format!("offer {offer} on {pool} for {ask}: quoted protocol fee {} but the fee collector received {}", q.protocol_fee_amount, f1.saturating_sub(f0)),
                ));
            }
        }
        let g = |k: &str| -> u128 { o.attr(k).and_then(|v| v.parse().ok()).unwrap_or(u128::MAX) };
        let got = (g("return_amount"), g("swap_fee_amount"), g("protocol_fee_amount"), g("burn_fee_amount"), g("extra_fees_amount"));
        let want = (
            q.return_amount.u128(),
            q.swap_fee_amount.u128(),
            q.protocol_fee_amount.u128(),
            q.burn_fee_amount.u128(),
            q.extra_fees_amount.u128(),
        );
        c.stats.bump("probe.c12.direct_compared");
        if got != want {
            return Err(viol(
                "C12.quote_vs_swap",
                format!("pool {pool} offer {offer}: quote (return, swap, protocol, burn, extra) = {:?} but execution = {:?}", want, got),
            ));
        }
        let p = pre.pool(pool).unwrap();
        c.stats.sig(&["direct", p.pool_info.pool_type.get_label(), &p.pool_info.assets.len().to_string(), &(offer.amount.u128().max(1).ilog10() / 2).to_string()]);
        Ok(())
    }

    fn reverse(&self, c: &mut SimCore, sender: &str, pool: &str, offer_denom: &str, ask: &str, pre: &Obs, r: u128) -> MResult {
        if r == 0 {
            return Ok(());
        }
        let q: Result<ReverseSimulationResponse, _> = c.w.app.wrap().query_wasm_smart(
            c.w.a.pm.to_string(),
            &QueryMsg::ReverseSimulation { ask_asset: coin(r, ask), offer_asset_denom: offer_denom.to_string(), pool_identifier: pool.to_string() },
        );
        let q = match q {
            Ok(q) => q,
            Err(_) => {
                c.stats.bump("probe.c12.reverse_refused");
                return Ok(());
            }
        };
        let need = match q.offer_amount.u128().checked_add(1) {
            Some(n) if n < (1u128 << 120) => n,
            _ => return Ok(()),
        };
        let snap = c.fork();
        // simulator-only: make sure the trader can afford the quoted offer on the fork
        let s = cosmwasm_std::Addr::unchecked(sender);
        c.w.faucet(&s, vec![coin(need, offer_denom)]);
        let op = Op::Pm {
            sender: sender.to_string(),
            msg: PmMsg::Swap {
                ask_asset_denom: ask.to_string(),
                belief_price: None,
                max_slippage: half(),
                receiver: None,
                pool_identifier: pool.to_string(),
            },
            funds: vec![coin(need, offer_denom)],
        };
        let o = c.exec_op(&op, None);
        c.w.restore(&snap);
        if !o.ok() {
            c.stats.bump("probe.c12.reverse_exec_rejected");
            return Ok(());
        }
        let got: u128 = o.attr("return_amount").and_then(|v| v.parse().ok()).unwrap_or(0);
        c.stats.bump("probe.c12.reverse_compared");
        if r >= 10u128.pow(18) {
            c.stats.bump("probe.c12.reverse_request_over_1e18");
        }
        if got < r {
            let p = pre.pool(pool).unwrap();
            let mut v = viol(
                "C12.reverse_quote_short",
                format!(
                    "pool {pool} reserves {:?}: requested {r}{ask}, quoted offer {}; offering one unit more returned only {got}",
                    p.pool_info.assets, q.offer_amount
                ),
            );
            // known-finding envelope S7: the quote multiplies by 1/(1-fees) truncated to 18 digits, so
            // for requests above 10^18 units it is short by at most request x 10^-18 (+2) units
            let short = r - got;
            if r >= 10u128.pow(18) && short <= r / 10u128.pow(18) + 2 {
                v.finding = Some("S7-reverse-quote-18-digit-factor".into());
                v.truncate = false;
            }
            return Err(v);
        }
        c.stats.sig(&["reverse", &(r.max(1).ilog10() / 2).to_string()]);
        Ok(())
    }

    fn route(&self, c: &mut SimCore, sender: &str, offer: &Coin, ops: &[SwapOperation]) -> MResult {
        // only simple routes: each pool visited at most once
        let mut ids: Vec<String> = ops.iter().map(|o| o.get_pool_identifer()).collect();
        let n = ids.len();
        ids.sort();
        ids.dedup();
        if ids.len() != n || n == 0 {
            c.stats.bump("probe.c12.non_simple_route_skipped");
            return Ok(());
        }
        let q: Result<SimulateSwapOperationsResponse, _> = c.w.app.wrap().query_wasm_smart(
            c.w.a.pm.to_string(),
            &QueryMsg::SimulateSwapOperations { offer_amount: offer.amount, operations: ops.to_vec() },
        );
        let snap = c.fork();
        let op = Op::Pm {
            sender: sender.to_string(),
            msg: PmMsg::ExecuteSwapOperations { operations: ops.to_vec(), minimum_receive: None, receiver: None, max_slippage: half() },
            funds: vec![offer.clone()],
        };
        let o = c.exec_op(&op, None);
        c.w.restore(&snap);
        let q = match q {
            Ok(q) => q,
            Err(qe) => {
                c.stats.bump("probe.c12.route_quote_refused");
                // a route that executes has a quote
                if o.ok() {
                    return Err(viol(
                        "C12.executes_unquoted",
                        format!("route of {n} hops offering {offer}: it executes and pays {:?}, but SimulateSwapOperations refuses to quote it: {qe}", o.attr("return_amount")),
                    ));
                }
                return Ok(());
            }
        };
        if !o.ok() {
            let t = o.err_text();
            let last: String = t.rsplit(": ").next().unwrap_or("").chars().filter(|ch| ch.is_ascii_alphabetic() || *ch == ' ').take(48).collect();
            c.stats.bump(&format!("probe.c12.route_exec_rejected.{}", last.trim().replace(' ', "_")));
            // a route whose every hop is offered what the previous hop returns IS consecutive: quoted
            // by the query, it must not be refused as non-consecutive by the execution
            let chained = ops.windows(2).all(|w| w[0].get_target_asset_info() == *w[1].get_input_asset_info()) && ops[0].get_input_asset_info() == &offer.denom;
            if chained && t.contains("consecutive swap operation") {
                return Err(viol(
                    "C12.quote_not_executable",
                    format!("connected route of {n} hops offering {offer}: SimulateSwapOperations = {} but execution refuses it as non-consecutive", q.return_amount),
                ));
            }
            return Ok(());
        }
        let got: u128 = o.attr("return_amount").and_then(|v| v.parse().ok()).unwrap_or(u128::MAX);
        c.stats.bump("probe.c12.route_compared");
        if got != q.return_amount.u128() {
            return Err(viol(
                "C12.quote_vs_route",
                format!("route of {n} hops offering {offer}: SimulateSwapOperations = {} but execution returned {got}", q.return_amount),
            ));
        }
        // asking for exactly the quoted amount must be satisfiable by the same route
        let snap = c.fork();
        let op = Op::Pm {
            sender: sender.to_string(),
            msg: PmMsg::ExecuteSwapOperations { operations: ops.to_vec(), minimum_receive: Some(q.return_amount), receiver: None, max_slippage: half() },
            funds: vec![offer.clone()],
        };
        let o2 = c.exec_op(&op, None);
        c.w.restore(&snap);
        if !o2.ok() {
            return Err(viol(
                "C12.quote_not_executable",
                format!("route of {n} hops offering {offer}: quoted {} and executes for {got} without a minimum, but fails with minimum_receive = the quote: {}", q.return_amount, o2.err_text()),
            ));
        }
        c.stats.sig(&["route", &n.to_string()]);
        Ok(())
    }
}

/// The longest route from `start` that visits each funded pool at most once (depth-first over pools
/// in identifier order, bounded); derived from the observed state only, so replay rebuilds it.
fn longest_simple_route(pre: &Obs, start: &str) -> Vec<SwapOperation> {
    let mut pools: Vec<(&str, Vec<&str>)> = pre
        .pools
        .iter()
        .filter(|p| !p.total_share.amount.is_zero() && p.pool_info.assets.iter().all(|a| !a.amount.is_zero()))
        .map(|p| (p.pool_info.pool_identifier.as_str(), p.pool_info.asset_denoms.iter().map(|d| d.as_str()).collect()))
        .collect();
    pools.sort();
    pools.truncate(10);
    fn dfs<'a>(pools: &[(&'a str, Vec<&'a str>)], cur: &'a str, used: &mut Vec<bool>, path: &mut Vec<(&'a str, &'a str, &'a str)>, best: &mut Vec<(&'a str, &'a str, &'a str)>, budget: &mut u32) {
        if path.len() > best.len() {
            *best = path.clone();
        }
        if path.len() >= 8 || *budget == 0 {
            return;
        }
        for i in 0..pools.len() {
            if used[i] || !pools[i].1.contains(&cur) {
                continue;
            }
            for out in pools[i].1.iter().filter(|d| **d != cur) {
                if *budget == 0 {
                    return;
                }
                *budget -= 1;
                used[i] = true;
                path.push((pools[i].0, cur, out));
                dfs(pools, out, used, path, best, budget);
                path.pop();
                used[i] = false;
            }
        }
    }
    let mut used = vec![false; pools.len()];
    let (mut path, mut best, mut budget) = (vec![], vec![], 4000u32);
    dfs(&pools, start, &mut used, &mut path, &mut best, &mut budget);
    best.into_iter()
        .map(|(id, i, o)| SwapOperation::MantraSwap { token_in_denom: i.to_string(), token_out_denom: o.to_string(), pool_identifier: id.to_string() })
        .collect()
}

impl Monitor for C12 {
    fn pre(&mut self, c: &mut SimCore, step: &Step, pre: &Obs) -> MResult {
        let (sender, msg, funds) = match &step.op {
            Op::Pm { sender, msg, funds } => (sender, msg, funds),
            _ => return Ok(()),
        };
        match msg {
            PmMsg::Swap { ask_asset_denom, pool_identifier, .. } => {
                let m = coins_to_map(funds);
                if m.len() != 1 {
                    return Ok(());
                }
                let (od, oa) = m.iter().next().unwrap();
                let p = match pre.pool(pool_identifier) {
                    Some(p) => p.clone(),
                    None => return Ok(()),
                };
                let offer = coin(*oa, od.clone());
                self.direct(c, sender, pool_identifier, &offer, ask_asset_denom, pre)?;
                if p.pool_info.pool_type == PoolType::ConstantProduct
                    && p.pool_info.asset_denoms.contains(od)
                    && p.pool_info.asset_denoms.contains(ask_asset_denom)
                    && od != ask_asset_denom
                {
                    // requested amounts derived from the state only (replayable): the forward quote,
                    // a third of the ask reserve, and a small amount
                    let ask_res = p.pool_info.assets.iter().find(|a| &a.denom == ask_asset_denom).map(|a| a.amount.u128()).unwrap_or(0);
                    let fwd: Result<SimulationResponse, _> = c.w.app.wrap().query_wasm_smart(
                        c.w.a.pm.to_string(),
                        &QueryMsg::Simulation { offer_asset: offer.clone(), ask_asset_denom: ask_asset_denom.clone(), pool_identifier: pool_identifier.clone() },
                    );
                    let mut reqs = vec![ask_res / 3, (*oa % 997) + 1, ask_res / 1000 + 1];
                    if let Ok(f) = fwd {
                        reqs.push(f.return_amount.u128());
                    }
                    for r in reqs {
                        self.reverse(c, sender, pool_identifier, od, ask_asset_denom, pre, r)?;
                    }
                }
            }
            PmMsg::ExecuteSwapOperations { operations, .. } => {
                let m = coins_to_map(funds);
                if m.len() != 1 || operations.is_empty() {
                    return Ok(());
                }
                let (od, oa) = m.iter().next().unwrap();
                if operations[0].get_input_asset_info() != od {
                    return Ok(());
                }
                self.route(c, sender, &coin(*oa, od.clone()), operations)?;
                // and the longest simple route the current pools allow from the offered denom
                let long = longest_simple_route(pre, od);
                if long.len() > operations.len().max(2) {
                    c.stats.bump(if long.len() >= 5 { "probe.c12.long_route_5_plus_hops" } else { "probe.c12.long_route_3_4_hops" });
                    // small offers survive many hops: also a thousandth of the offer
                    self.route(c, sender, &coin(*oa, od.clone()), &long)?;
                    self.route(c, sender, &coin((*oa / 1000).max(1000), od.clone()), &long)?;
                }
            }
            _ => {}
        }
        let _ = Uint128::zero();
        Ok(())
    }
    fn post(&mut self, _c: &mut SimCore, _step: &Step, _pre: &Obs, _out: &TxOut, _post: &Obs) -> MResult {
        Ok(())
    }
}
