//! C01 — pool reserves are always fully backed by the pool manager's real balances.

use std::collections::BTreeMap;

use mantra_dex_std::pool_manager::{ExecuteMsg as PmMsg, PoolType};

use crate::sim::{coins_to_map, viol, MResult, Monitor, Obs, SimCore};
use crate::trace::{Op, Step};
use crate::world::{bal, supply, TxOut};

#[derive(Default)]
pub struct C01 {
    /// tokens sent to the pool manager outside pool operations
    donated: BTreeMap<String, u128>,
    /// the indivisible unit left by accepted odd-amount single-asset deposits
    odd_dust: BTreeMap<String, u128>,
}

pub fn locked_min(pool: &mantra_dex_std::pool_manager::PoolInfo) -> u128 {
    match pool.pool_type {
        PoolType::ConstantProduct => 1000,
        PoolType::StableSwap { .. } => {
            let mn = *pool.asset_decimals.iter().min().unwrap_or(&0) as u32;
            let mx = *pool.asset_decimals.iter().max().unwrap_or(&0) as u32;
            1000u128.saturating_mul(10u128.saturating_pow(mx - mn))
        }
    }
}

impl Monitor for C01 {
    fn post(&mut self, c: &mut SimCore, step: &Step, pre: &Obs, out: &TxOut, post: &Obs) -> MResult {
        let pm = c.w.a.pm.to_string();
        // ---- model update from this step (only accepted operations move anything)
        if out.ok() {
            match &step.op {
                Op::Send { to, coins, .. } if *to == pm => {
                    for (d, a) in coins_to_map(coins) {
                        *self.donated.entry(d).or_insert(0) += a;
                    }
                }
                Op::Pm { msg, funds, .. } => match msg {
                    PmMsg::ProvideLiquidity { pool_identifier, receiver, unlocking_duration, .. } => {
                        let m = coins_to_map(funds);
                        if m.len() == 1 {
                            let (d, a) = m.iter().next().unwrap();
                            if a % 2 == 1 {
                                *self.odd_dust.entry(d.clone()).or_insert(0) += 1;
                                c.stats.bump("probe.odd_single_asset_deposit");
                            }
                        }
                        // LP minted straight to the pool manager's own address is a donation of LP
                        if unlocking_duration.is_none() && receiver.as_deref() == Some(pm.as_str()) {
                            if let (Some(p0), Some(added)) = (pre.pool(pool_identifier), out.attrs().iter().rev().find(|(k, _)| k == "added_shares")) {
                                let a: u128 = added.1.parse().unwrap_or(0);
                                *self.donated.entry(p0.pool_info.lp_denom.clone()).or_insert(0) += a;
                                c.stats.bump("probe.lp_minted_to_pool_manager");
                            }
                        }
                    }
                    PmMsg::Swap { receiver, ask_asset_denom, .. } => {
                        if receiver.as_deref() == Some(pm.as_str()) {
                            let r: u128 = out.attr("return_amount").and_then(|s| s.parse().ok()).unwrap_or(0);
                            *self.donated.entry(ask_asset_denom.clone()).or_insert(0) += r;
                            c.stats.bump("probe.swap_receiver_is_pool_manager");
                        }
                    }
                    PmMsg::ExecuteSwapOperations { receiver, operations, .. } => {
                        if receiver.as_deref() == Some(pm.as_str()) {
                            let r: u128 = out.attr("return_amount").and_then(|s| s.parse().ok()).unwrap_or(0);
                            if let Some(last) = operations.last() {
                                *self.donated.entry(last.get_target_asset_info()).or_insert(0) += r;
                            }
                        }
                    }
                    _ => {}
                },
                _ => {}
            }
        }
        // fee collector == pool manager would make fees "donations"; generators never do that,
        // but a replayed/minimised trace could: account for it soundly by skipping the equality.
        let cfg = c.w.pm_config();
        let self_fc = cfg.fee_collector_addr == c.w.a.pm
            || c.w.fm_config().fee_collector_addr == c.w.a.pm;

        // ---- invariant over every denom
        let mut reserves: BTreeMap<String, u128> = BTreeMap::new();
        let mut locked: BTreeMap<String, u128> = BTreeMap::new();
        for p in post.pools.iter() {
            for a in p.pool_info.assets.iter() {
                *reserves.entry(a.denom.clone()).or_insert(0) += a.amount.u128();
            }
            let s = supply(&post.bal, &p.pool_info.lp_denom);
            if s != p.total_share.amount.u128() {
                return Err(viol("C01.supply_query", format!("Pools{{}} total_share {} != bank supply {} for {}", p.total_share.amount, s, p.pool_info.lp_denom)));
            }
            if s > 0 {
                let lm = locked_min(&p.pool_info);
                locked.insert(p.pool_info.lp_denom.clone(), lm);
                if s < lm {
                    return Err(viol("C01.lp_supply_below_locked", format!("supply {} < locked {} for {}", s, lm, p.pool_info.lp_denom)));
                }
            }
        }
        let empty = BTreeMap::new();
        let pm_bal = post.bal.get(&pm).unwrap_or(&empty);
        let mut denoms: Vec<&String> = pm_bal.keys().chain(reserves.keys()).collect();
        denoms.sort();
        denoms.dedup();
        for d in denoms {
            let have = bal(&post.bal, &pm, d);
            let res = reserves.get(d).copied().unwrap_or(0);
            if have < res {
                return Err(viol(
                    "C01.backing",
                    format!("denom {d}: pool manager holds {have} < sum of reserves {res} (after {} {})", step.op.kind(), if out.ok() { "ok" } else { "rejected" }),
                ));
            }
            if self_fc {
                continue;
            }
            let expect = res
                + self.donated.get(d).copied().unwrap_or(0)
                + self.odd_dust.get(d).copied().unwrap_or(0)
                + locked.get(d).copied().unwrap_or(0);
            if have != expect {
                return Err(viol(
                    "C01.excess",
                    format!(
                        "denom {d}: pool manager holds {have}, explained {expect} = reserves {res} + donated {} + odd units {} + locked LP {} (after {} {})",
                        self.donated.get(d).copied().unwrap_or(0),
                        self.odd_dust.get(d).copied().unwrap_or(0),
                        locked.get(d).copied().unwrap_or(0),
                        step.op.kind(),
                        if out.ok() { "ok" } else { "rejected" }
                    ),
                ));
            }
        }
        // ---- "the reserves it reports": the listing read in small pages (and with the default page
        // size) reports every stored pool exactly once, with the same reserves as the one-page read
        if post.pools.len() >= 2 && (out.ok() || c.step_no % 8 == 0) {
            let lim = match c.step_no % 4 {
                0 => None,
                n => Some(n as u32),
            };
            let raw = c.w.pool_ids_raw();
            match c.w.pools_via_query(lim) {
                Ok(q) => {
                    let ids: Vec<String> = q.iter().map(|p| p.pool_info.pool_identifier.clone()).collect();
                    if ids != raw {
                        return Err(viol("C01.listing", format!("Pools{{}} read in pages of {:?} lists {:?}, storage holds {:?}: reserves summed over the listing are not the reserves held", lim, ids, raw)));
                    }
                    if q != post.pools {
                        return Err(viol("C01.listing", format!("Pools{{}} read in pages of {:?} reports other reserves / shares than the one-page read", lim)));
                    }
                }
                Err(e) => return Err(viol("C01.listing", format!("Pools{{}} query failed: {e}"))),
            }
            c.stats.bump("probe.c01.pool_listing_paged");
            if post.pools.len() > 10 && lim.is_none() {
                c.stats.bump("probe.c01.pool_listing_beyond_default_page");
            }
        }
        // abstract state signature for coverage
        let npools = post.pools.len();
        let nfunded = post.pools.iter().filter(|p| !p.total_share.amount.is_zero()).count();
        c.stats.sig(&[step.op.kind(), if out.ok() { "ok" } else { "rej" }, &npools.to_string(), &nfunded.to_string()]);
        Ok(())
    }
}
