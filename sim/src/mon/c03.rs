//! C03 — swaps never reduce pool value; no sequence of swaps is profitable.

use cosmwasm_std::{coin, Decimal};
use mantra_dex_std::pool_manager::{ExecuteMsg as PmMsg, PoolInfo, PoolType};
use num_bigint::BigUint;

use super::util::*;
use crate::exact::{normalise, res, Stable};
use crate::sim::{coins_to_map, viol, MResult, Monitor, Obs, SimCore, Violation};
use crate::trace::{Op, Step};
use crate::world::TxOut;

#[derive(Default)]
pub struct C03;

/// parse "12uom,34uusdt" in the pool's asset order
pub fn parse_reserves(s: &str, pool: &PoolInfo) -> Option<Vec<u128>> {
    let parts: Vec<(u128, String)> = s.split(',').filter_map(parse_coin).collect();
    if parts.len() != pool.assets.len() {
        return None;
    }
    // map by denom onto asset_denoms order (decimals are indexed by that order)
    let mut out = vec![];
    for d in pool.asset_denoms.iter() {
        out.push(parts.iter().find(|(_, x)| x == d)?.0);
    }
    Some(out)
}

fn reserves_in_denom_order(pool: &PoolInfo) -> Vec<u128> {
    pool.asset_denoms
        .iter()
        .map(|d| pool.assets.iter().find(|a| &a.denom == d).map(|a| a.amount.u128()).unwrap_or(0))
        .collect()
}

/// invariant comparison: Ok(true) when after >= before
pub fn invariant_not_decreased(pool: &PoolInfo, before: &[u128], after: &[u128]) -> Option<(bool, String)> {
    match pool.pool_type {
        PoolType::ConstantProduct => {
            let k0 = BigUint::from(before[0]) * BigUint::from(before[1]);
            let k1 = BigUint::from(after[0]) * BigUint::from(after[1]);
            Some((k1 >= k0, format!("x*y {k0} -> {k1}")))
        }
        PoolType::StableSwap { amp } => {
            let (b, _) = normalise(before, &pool.asset_decimals)?;
            let (a, _) = normalise(after, &pool.asset_decimals)?;
            let st = Stable::new(amp, before.len());
            let d0 = st.d_scaled(&b)?;
            let d1 = st.d_scaled(&a)?;
            let r = res();
            Some((d1 >= d0, format!("D {}.{:09} -> {}.{:09}", &d0 / &r, &d0 % &r, &d1 / &r, &d1 % &r)))
        }
    }
}

/// (shortfall, tolerance): by how many normalised units (x RES) the ask balance after the swap is
/// below the smallest balance that preserves the exact invariant, and the pricing tolerance the
/// implementation actually achieves for a quote (finding S11): eight smallest units of the ask token
/// plus the value of two smallest units of the offered token (+2 normalised units of iteration dust)
/// plus the effect of two units of D on the ask balance.
fn ask_shortfall(pool: &PoolInfo, before: &[u128], after: &[u128]) -> Option<(BigUint, BigUint)> {
    if let PoolType::StableSwap { amp } = pool.pool_type {
        let (b, mx) = normalise(before, &pool.asset_decimals)?;
        let (a, _) = normalise(after, &pool.asset_decimals)?;
        let j = (0..before.len()).find(|i| after[*i] < before[*i])?;
        let i = (0..before.len()).find(|i| after[*i] > before[*i])?;
        let st = Stable::new(amp, before.len());
        let d0 = st.d_scaled(&b)?;
        let r = res();
        let others = |bump: &BigUint| -> Vec<BigUint> {
            a.iter().enumerate().filter(|(k, _)| *k != j).map(|(k, x)| if k == i { x + bump } else { x.clone() }).collect()
        };
        let y = st.y_scaled(&others(&BigUint::from(0u32)), &d0)?;
        let unit_j = BigUint::from(10u64).pow(mx - pool.asset_decimals[j] as u32);
        let unit_i = BigUint::from(10u64).pow(mx - pool.asset_decimals[i] as u32);
        let y2 = st.y_scaled(&others(&(&unit_i * 2u32)), &d0)?;
        let value_two_offer_units = if y > y2 { &y - &y2 } else { BigUint::from(0u32) };
        let aj = &a[j] * &r;
        let short = if y > aj { &y - &aj } else { BigUint::from(0u32) };
        // what an error of four smallest units in the contract's D (one-unit stopping rule, S11)
        // does to the ask balance: below one unit on ordinary pools, ~10 per unit of D on
        // low-amplification pools at the edge of the 1000:1 range
        let two = &r * 4u32;
        let d_lo = if d0 > two { &d0 - &two } else { BigUint::from(0u32) };
        let y_lo = st.y_scaled(&others(&BigUint::from(0u32)), &d_lo)?;
        let by_d = if y > y_lo { &y - &y_lo } else { BigUint::from(0u32) };
        let tol = (&unit_j * 8u32 + BigUint::from(2u32)) * &r + value_two_offer_units + fixed_point_slack(mx, &d0) + by_d;
        return Some((short, tol));
    }
    None
}

/// Fixed-point slack of the swap path, in normalised units x RES: the contract iterates D as an
/// 18-digit decimal of WHOLE tokens, so intermediate products of the order D_tokens^2 carry a
/// relative error of 10^-18 / D_tokens^2 and D itself an absolute error of about 10^-18 / D_tokens
/// tokens = 10^(2*maxdec-18) / D_normalised normalised units (x4 for the output's sensitivity).
pub fn fixed_point_slack(mxd: u32, d_scaled: &BigUint) -> BigUint {
    if d_scaled == &BigUint::from(0u32) || 2 * mxd < 18 {
        return BigUint::from(0u32);
    }
    let r = res();
    BigUint::from(4u32) * BigUint::from(10u64).pow(2 * mxd - 18) * &r * &r / d_scaled
}

/// degenerate pool: normalised reserves skewed beyond 1000:1, an asset with < 1000 smallest units,
/// or less than a millionth of a whole token in total
pub fn degenerate(pool: &PoolInfo, reserves: &[u128]) -> bool {
    if reserves.iter().any(|x| *x < 1000) {
        return true;
    }
    match normalise(reserves, &pool.asset_decimals) {
        Some((b, mxd)) => {
            let mx = b.iter().max().unwrap();
            let mn = b.iter().min().unwrap();
            // the swap path computes in 18-digit decimals of WHOLE tokens: below a millionth of a
            // token in total, products of two amounts keep only a couple of significant digits
            let total: BigUint = b.iter().sum();
            let micro_token = BigUint::from(10u64).pow(mxd.saturating_sub(6));
            mx > &(mn * 1000u32) || total < micro_token
        }
        None => false,
    }
}

impl C03 {
    fn hop_violation(pool: &PoolInfo, before: &[u128], after: &[u128], what: &str, detail: String) -> Violation {
        let mut v = viol("C03.invariant_decreased", format!("{what} on pool {} ({:?}, decimals {:?}): reserves {:?} -> {:?}: {detail}", pool.pool_identifier, pool.pool_type, pool.asset_decimals, before, after));
        // envelope S6: the stableswap output is not rounded in the pool's favour (new ask balance
        // floored when converted to the ask precision, no safety unit, iteration dust), so D can
        // drop - but only within the pricing tolerance a quote is allowed by C19
        if let Some((short, tol)) = ask_shortfall(pool, before, after) {
            if short <= tol {
                v.finding = Some("S6-stableswap-output-rounding".into());
                v.truncate = false;
            }
            // envelope S9: beyond the 1000:1 skew for which C19 states pricing accuracy, the swap
            // path's D / y iterations are ill-conditioned and err by more than the quote tolerance
            if v.finding.is_none() && (degenerate(pool, before) || degenerate(pool, after)) {
                v.finding = Some("S9-stableswap-skewed-pool-accuracy".into());
                v.truncate = false;
            }
            v.detail.push_str(&format!(" [ask balance {short}e-9 normalised units below the invariant-preserving minimum; pricing tolerance {tol}e-9]"));
        }
        v
    }
}

impl Monitor for C03 {
    fn post(&mut self, c: &mut SimCore, step: &Step, pre: &Obs, out: &TxOut, post: &Obs) -> MResult {
        let (sender, msg, funds) = match &step.op {
            Op::Pm { sender, msg, funds } => (sender, msg, funds),
            _ => return Ok(()),
        };
        if !out.ok() {
            return Ok(());
        }
        let attrs = out.attrs();
        // swap events in order: (pool id, reserves after)
        let mut hops: Vec<(String, String)> = vec![];
        {
            let mut cur_is_swap = false;
            let mut pid: Option<String> = None;
            for (k, v) in attrs.iter() {
                match k.as_str() {
                    "action" => {
                        cur_is_swap = v == "swap";
                        pid = None;
                    }
                    "swap" => {
                        cur_is_swap = true; // route hop
                        pid = None;
                    }
                    "pool_identifier" => pid = Some(v.clone()),
                    "pool_reserves" => {
                        if cur_is_swap {
                            if let Some(p) = pid.take() {
                                hops.push((p, v.clone()));
                            }
                            if !matches!(msg, PmMsg::ExecuteSwapOperations { .. }) {
                                cur_is_swap = false;
                            }
                        }
                    }
                    _ => {}
                }
            }
        }
        let is_swap_msg = matches!(msg, PmMsg::Swap { .. } | PmMsg::ExecuteSwapOperations { .. });
        let is_single = matches!(msg, PmMsg::ProvideLiquidity { .. }) && coins_to_map(funds).len() == 1;
        if !(is_swap_msg || is_single) {
            return Ok(());
        }
        if hops.is_empty() {
            return Err(viol("C03.attributes", format!("{} accepted without a swap event", step.op.kind())));
        }
        // chain the per-hop reserves
        let mut current: std::collections::BTreeMap<String, Vec<u128>> = std::collections::BTreeMap::new();
        for (pid, rs) in hops.iter() {
            let p = match pre.pool(pid) {
                Some(p) => &p.pool_info,
                None => return Err(viol("C03.attributes", format!("swap on unknown pool {pid}"))),
            };
            let before = current.get(pid).cloned().unwrap_or_else(|| reserves_in_denom_order(p));
            let after = match parse_reserves(rs, p) {
                Some(a) => a,
                None => return Err(viol("C03.attributes", format!("cannot parse pool_reserves {rs}"))),
            };
            if before.iter().any(|x| *x == 0) {
                return Err(viol("C03.swap_on_empty_pool", format!("swap executed on pool {pid} with reserves {:?}", before)));
            }
            match invariant_not_decreased(p, &before, &after) {
                Some((true, _)) => {}
                Some((false, d)) => {
                    return Err(Self::hop_violation(p, &before, &after, if is_single { "internal swap of a single-asset deposit" } else { "swap" }, d));
                }
                None => {
                    c.stats.bump("probe.c03.unsupported_decimals_skipped");
                }
            }
            let zero_fee = p.pool_fees.swap_fee.share.is_zero()
                && p.pool_fees.protocol_fee.share.is_zero()
                && p.pool_fees.burn_fee.share.is_zero()
                && p.pool_fees.extra_fees.iter().all(|f| f.share == Decimal::zero());
            c.stats.sig(&[
                "hop",
                p.pool_type.get_label(),
                &p.assets.len().to_string(),
                &format!("{:?}", p.asset_decimals),
                if zero_fee { "zerofee" } else { "fee" },
                &(before[0].max(1).ilog10() / 4).to_string(),
            ]);
            if zero_fee {
                c.stats.bump("probe.c03.zero_fee_swap");
            }
            current.insert(pid.clone(), after);
        }
        c.stats.bump(if hops.len() > 1 { "probe.c03.multi_hop" } else { "probe.c03.single_hop" });
        // for swap messages the chained reserves must be what Pools{} reports afterwards
        if is_swap_msg {
            for (pid, rs) in current.iter() {
                if let Some(p) = post.pool(pid) {
                    if &reserves_in_denom_order(&p.pool_info) != rs {
                        return Err(viol("C03.reserves_vs_events", format!("pool {pid}: events say {:?}, Pools{{}} says {:?}", rs, p.pool_info.assets)));
                    }
                }
            }
        }
        // ---- a route that stays in one pool and ends in the denom it started with never returns more
        // than was offered
        if let PmMsg::ExecuteSwapOperations { operations, .. } = msg {
            if let (Some(first), Some(last)) = (operations.first(), operations.last()) {
                let m = coins_to_map(funds);
                // (within ONE pool: across pools quoting different prices a cycle is ordinary arbitrage)
                let one_pool = operations.iter().all(|o| o.get_pool_identifer() == first.get_pool_identifer());
                if one_pool && first.get_input_asset_info() == &last.get_target_asset_info() {
                    if let (Some(oa), Some(ret)) = (m.get(first.get_input_asset_info()), out.attr("return_amount").and_then(|v| v.parse::<u128>().ok())) {
                        c.stats.bump("probe.c03.cyclic_route");
                        if ret > *oa {
                            let stable = operations.iter().any(|o| pre.pool(&o.get_pool_identifer()).map(|p| matches!(p.pool_info.pool_type, PoolType::StableSwap { .. })).unwrap_or(false));
                            let mut v = viol("C03.profitable_cycle", format!("route of {} hops from and back to {} offered {oa} and returned {ret}", operations.len(), first.get_input_asset_info()));
                            if stable && ret - *oa <= 2 * operations.len() as u128 {
                                v.finding = Some("S6-stableswap-output-rounding".into());
                                v.truncate = false;
                            } else if stable && operations.iter().any(|o| pre.pool(&o.get_pool_identifer()).map(|p| degenerate(&p.pool_info, &reserves_in_denom_order(&p.pool_info))).unwrap_or(false)) {
                                v.finding = Some("S9-stableswap-skewed-pool-accuracy".into());
                                v.truncate = false;
                            }
                            return Err(v);
                        }
                    }
                }
            }
        }
        // ---- round trip: swap the proceeds straight back (fork); never ends with more
        if let PmMsg::Swap { ask_asset_denom, pool_identifier, .. } = msg {
            let m = coins_to_map(funds);
            if let (Some((od, oa)), Some(ret)) = (m.iter().next(), out.attr("return_amount").and_then(|v| v.parse::<u128>().ok())) {
                if ret > 0 {
                    let snap = c.fork();
                    let s = cosmwasm_std::Addr::unchecked(sender.as_str());
                    c.w.faucet(&s, vec![coin(ret, ask_asset_denom.clone())]);
                    // candidates: the same pool, and any other pool holding both denoms
                    let mut pools: Vec<String> = vec![pool_identifier.clone()];
                    for p in post.pools.iter() {
                        let pi = &p.pool_info;
                        if pi.pool_identifier != *pool_identifier
                            && pi.asset_denoms.contains(od)
                            && pi.asset_denoms.contains(ask_asset_denom)
                            && pi.assets.iter().all(|a| !a.amount.is_zero())
                        {
                            pools.push(pi.pool_identifier.clone());
                        }
                    }
                    let back_pool = pools[0].clone();
                    let o = c.exec_op(
                        &Op::Pm {
                            sender: sender.clone(),
                            msg: PmMsg::Swap {
                                ask_asset_denom: od.clone(),
                                belief_price: None,
                                max_slippage: Some(Decimal::percent(50)),
                                receiver: None,
                                pool_identifier: back_pool.clone(),
                            },
                            funds: vec![coin(ret, ask_asset_denom.clone())],
                        },
                        None,
                    );
                    c.w.restore(&snap);
                    if o.ok() {
                        let back: u128 = o.attr("return_amount").and_then(|v| v.parse().ok()).unwrap_or(0);
                        c.stats.bump("probe.c03.round_trip");
                        if back > *oa {
                            let p = pre.pool(&back_pool).map(|p| p.pool_info.clone());
                            let mut v = viol(
                                "C03.profitable_round_trip",
                                format!("swapping {oa}{od} -> {ret}{ask_asset_denom} and straight back returned {back}{od} on pool {:?}", p),
                            );
                            if let Some(p) = p {
                                if matches!(p.pool_type, PoolType::StableSwap { .. }) {
                                    let rs: Vec<u128> = p.asset_denoms.iter().map(|d| p.assets.iter().find(|a| &a.denom == d).map(|a| a.amount.u128()).unwrap_or(0)).collect();
                                    if back - *oa <= 2 {
                                        v.finding = Some("S6-stableswap-output-rounding".into());
                                        v.truncate = false;
                                    } else if degenerate(&p, &rs) {
                                        v.finding = Some("S9-stableswap-skewed-pool-accuracy".into());
                                        v.truncate = false;
                                    }
                                }
                            }
                            return Err(v);
                        }
                    }
                    // ---- derived (fork of the state after the swap): one-pool routes whose third
                    // operation does not continue the second - [x->y, y->x, y->x] - are refused by
                    // the router; should one ever execute, the trader must not end with more of the
                    // start denom than was offered (the third hop would be booking x as y)
                    if let Some(p) = post.pool(pool_identifier) {
                        for (x, y) in [(od.clone(), ask_asset_denom.clone()), (ask_asset_denom.clone(), od.clone())] {
                            let rx = p.pool_info.assets.iter().find(|a| a.denom == x).map(|a| a.amount.u128()).unwrap_or(0);
                            let amt = (rx / 200).max(1);
                            let hop = |i: &String, o: &String| mantra_dex_std::pool_manager::SwapOperation::MantraSwap {
                                token_in_denom: i.clone(),
                                token_out_denom: o.clone(),
                                pool_identifier: pool_identifier.clone(),
                            };
                            let ops = vec![hop(&x, &y), hop(&y, &x), hop(&y, &x)];
                            let snap = c.fork();
                            c.w.faucet(&s, vec![coin(amt, x.clone())]);
                            let o = c.exec_op(
                                &Op::Pm {
                                    sender: sender.clone(),
                                    msg: PmMsg::ExecuteSwapOperations { operations: ops, minimum_receive: None, receiver: None, max_slippage: Some(Decimal::percent(50)) },
                                    funds: vec![coin(amt, x.clone())],
                                },
                                None,
                            );
                            c.w.restore(&snap);
                            c.stats.bump(if o.ok() { "probe.c03.broken_link_route_executed" } else { "probe.c03.broken_link_route_refused" });
                            if o.ok() {
                                let back: u128 = o.attr("return_amount").and_then(|v| v.parse().ok()).unwrap_or(0);
                                if back > amt {
                                    return Err(viol(
                                        "C03.profitable_cycle",
                                        format!("one-pool route [{x}->{y}, {y}->{x}, {y}->{x}] on {pool_identifier} executed although its third operation does not continue the second, offered {amt}{x} and returned {back}{x}"),
                                    ));
                                }
                            }
                        }
                    }
                }
            }
        }
        Ok(())
    }
}
