//! C19 — stableswap pricing tracks the exact invariant or fails cleanly.

use cosmwasm_std::coin;
use mantra_dex_std::pool_manager::{ExecuteMsg as PmMsg, PoolInfo, PoolType, QueryMsg, SimulationResponse};
use num_bigint::BigUint;
use num_traits::Zero;

use super::c01::locked_min;
use crate::exact::{normalise, normalise_any, res, Stable};
use crate::sim::{coins_to_map, viol, MResult, Monitor, Obs, SimCore};
use crate::trace::{Op, Step};
use crate::world::{supply, TxOut};

#[derive(Default)]
pub struct C19;

fn order(pool: &PoolInfo) -> Vec<u128> {
    pool.asset_denoms
        .iter()
        .map(|d| pool.assets.iter().find(|a| &a.denom == d).map(|a| a.amount.u128()).unwrap_or(0))
        .collect()
}

/// the property is stated for pool states with skew up to 1000:1 (normalised reserves)
fn within_stated_skew(xs: &[BigUint]) -> bool {
    let mx = xs.iter().max().unwrap();
    let mn = xs.iter().min().unwrap();
    !mn.is_zero() && mx <= &(mn * 1000u32)
}

/// exact gross output (scaled by RES, normalised units) for offering `offer` units of asset i against asset j
fn exact_out(st: &Stable, xs: &[BigUint], d: &BigUint, i: usize, j: usize, offer_norm: &BigUint) -> Option<BigUint> {
    let mut others: Vec<BigUint> = vec![];
    for (k, x) in xs.iter().enumerate() {
        if k == j {
            continue;
        }
        others.push(if k == i { x + offer_norm } else { x.clone() });
    }
    let y = st.y_scaled(&others, d)?;
    let xj = &xs[j] * res();
    Some(if xj > y { xj - y } else { BigUint::zero() })
}

/// The deposit path's integer Newton iteration for D, step for step as the contract runs it
/// (`calculate_d_core`): true when it settles within the contract's 255 rounds.
fn contract_d_iteration_settles(xs: &[BigUint], amp: u64) -> bool {
    let n = BigUint::from(xs.len() as u64);
    let ann = BigUint::from(amp) * &n;
    let s: BigUint = xs.iter().sum();
    if s.is_zero() {
        return true;
    }
    let one = BigUint::from(1u32);
    let mut d = s.clone();
    for _ in 0..255 {
        let mut d_prod = d.clone();
        for x in xs.iter() {
            if x.is_zero() {
                continue;
            }
            d_prod = &d_prod * &d / (x * &n);
        }
        let prev = d.clone();
        let leverage = &s * &ann;
        let numerator = &d * (&d_prod * &n + &leverage);
        let denominator = &d * (&ann - &one) + &d_prod * (&n + &one);
        if denominator.is_zero() {
            return false;
        }
        d = numerator / denominator;
        let diff = if d > prev { &d - &prev } else { &prev - &d };
        if diff <= one {
            return true;
        }
    }
    false
}

impl C19 {
    fn check_quote(&self, c: &mut SimCore, pool: &PoolInfo, i: usize, j: usize, offer: u128) -> MResult {
        let amp = match pool.pool_type {
            PoolType::StableSwap { amp } => amp,
            _ => return Ok(()),
        };
        let rs = order(pool);
        let (xs, mx) = match normalise_any(&rs, &pool.asset_decimals) {
            Some(x) => x,
            None => return Ok(()),
        };
        if mx > 18 {
            c.stats.bump("probe.c19.quote_on_pool_beyond_18_decimals");
        }
        if rs.iter().any(|x| *x == 0) || offer == 0 {
            return Ok(());
        }
        let q: Result<SimulationResponse, _> = c.w.app.wrap().query_wasm_smart(
            c.w.a.pm.to_string(),
            &QueryMsg::Simulation {
                offer_asset: coin(offer, pool.asset_denoms[i].clone()),
                ask_asset_denom: pool.asset_denoms[j].clone(),
                pool_identifier: pool.pool_identifier.clone(),
            },
        );
        let q = match q {
            Ok(q) => q,
            Err(e) => {
                c.stats.bump("probe.c19.quote_refused");
                // well inside the supported range a quote must be given: ordinary decimals, skew within
                // 1000:1, no dust asset, an offer not above the offered asset's reserve
                let es = e.to_string();
                let inside = mx <= 18
                    && amp <= 1_000_000
                    && within_stated_skew(&xs)
                    && !super::c03::degenerate(pool, &rs)
                    && offer <= rs[i]
                    && rs.iter().all(|x| *x >= 1_000_000)
                    && xs.iter().all(|x| x <= &BigUint::from(10u64).pow(30))
                    && pool.status.swaps_enabled;
                if inside {
                    c.stats.bump("probe.c19.quote_refused_inside_range");
                    return Err(viol(
                        "C19.quote_refused_in_range",
                        format!(
                            "pool {} amp {amp} decimals {:?} reserves {:?}: offering {offer} of asset {i} for asset {j} is refused: {}",
                            pool.pool_identifier,
                            pool.asset_decimals,
                            rs,
                            es.rsplit(": ").next().unwrap_or("")
                        ),
                    ));
                }
                if std::env::var("VERIF_DEBUG").is_ok() {
                    let es = e.to_string();
                    let cls = if es.contains("converge") { "converge" } else if es.contains("overflow") { "overflow" } else { "other" };
                    let skew = {
                        let mxv = xs.iter().max().unwrap();
                        let mnv = xs.iter().min().unwrap();
                        if mxv > &(mnv * 1000u32) { "skew>1000" } else if mxv > &(mnv * 10u32) { "skew>10" } else { "skew<=10" }
                    };
                    let off = if offer > rs[i] { "offer>res" } else { "offer<=res" };
                    c.stats.bump(&format!("dbg.c19.refused.{cls}.maxdec{mx}.{skew}.{off}.amp{}", amp.max(1).ilog10()));
                }
                return Ok(());
            }
        };
        let gross = q.return_amount.u128() + q.swap_fee_amount.u128() + q.protocol_fee_amount.u128() + q.burn_fee_amount.u128() + q.extra_fees_amount.u128();
        if gross > rs[j] {
            return Err(viol("C19.output_exceeds_reserve", format!("pool {} quote {gross} > reserve {}", pool.pool_identifier, rs[j])));
        }
        if !within_stated_skew(&xs) {
            c.stats.bump("probe.c19.skew_outside_stated_range");
            return Ok(());
        }
        let dust_pool = super::c03::degenerate(pool, &rs);
        let st = Stable::new(amp, rs.len());
        let d = match st.d_scaled(&xs) {
            Some(d) => d,
            None => return Ok(()),
        };
        let unit_i = BigUint::from(10u64).pow(mx - pool.asset_decimals[i] as u32);
        let unit_j = BigUint::from(10u64).pow(mx - pool.asset_decimals[j] as u32);
        let off = BigUint::from(offer) * &unit_i;
        let two_i = &unit_i * 2u32;
        let lo_off = if off > two_i { &off - &two_i } else { BigUint::zero() };
        let hi_off = &off + &two_i;
        let (Some(lo), Some(hi)) = (exact_out(&st, &xs, &d, i, j, &lo_off), exact_out(&st, &xs, &d, i, j, &hi_off)) else {
            return Ok(());
        };
        let r = res();
        let g = BigUint::from(gross) * &unit_j * &r;
        let tol = &unit_j * 2u32 * &r;
        let lo_b = if lo > tol { &lo - &tol } else { BigUint::zero() };
        let hi_b = &hi + &tol;
        c.stats.bump("probe.c19.quote_checked");
        if g < lo_b || g > hi_b {
            let exact = exact_out(&st, &xs, &d, i, j, &off).unwrap_or_default();
            let mut v = viol(
                "C19.quote_inaccurate",
                format!(
                    "pool {} amp {amp} decimals {:?} reserves {:?}: offering {offer} of asset {i} for asset {j}: quoted gross {gross}; exact {} (ask units x1e9: quote {} vs allowed [{}, {}])",
                    pool.pool_identifier,
                    pool.asset_decimals,
                    rs,
                    (&exact / &r) / &unit_j,
                    &g / &unit_j,
                    &lo_b / &unit_j,
                    &hi_b / &unit_j
                ),
            );
            // envelope S6b: the swap path stops iterating D at a step of one whole token, so on pools
            // holding less than ~10^5 whole tokens the quote is short of the exact output
            let whole = BigUint::from(10u64).pow(mx);
            let tokens = &d / &r / &whole;
            if g < lo_b && tokens < BigUint::from(1_000_000u64) {
                v.finding = Some("S6b-swap-path-d-threshold".into());
                v.truncate = false;
            }
            // envelope S9 (dust): an asset holds fewer than 1000 smallest units
            if dust_pool {
                v.finding = Some("S9-stableswap-skewed-pool-accuracy".into());
                v.truncate = false;
            }
            // envelope S11: the contract's D stops within a step of one smallest unit and its
            // divisions floor, so its D may be up to 4 units (at the pool's highest precision; 2.75 were
            // measured on a 4-asset pool, amp 1, skew exactly 1000:1) away
            // from the exact root. The quote is then the exact solution for such a D: on skewed,
            // low-amplification pools dy/dD reaches ~10, elsewhere it is below 1. Envelope = outside
            // the band by at most 6 ask units (measured) or by what 4 units of D explain, whichever
            // is larger (+ the swap path's fixed-point slack on pools worth a fraction of a token).
            let six = &unit_j * 6u32 * &r + super::c03::fixed_point_slack(mx, &d);
            let beyond = if g > hi_b { &g - &hi_b } else if lo_b > g { &lo_b - &g } else { BigUint::zero() };
            let two_d = &r * 4u32;
            let d_hi = &d + &two_d;
            let d_lo = if d > two_d { &d - &two_d } else { BigUint::zero() };
            let by_d = match (exact_out(&st, &xs, &d_hi, i, j, &lo_off), exact_out(&st, &xs, &d_lo, i, j, &hi_off)) {
                (Some(lo2), Some(hi2)) => {
                    let lo2b = if lo2 > tol { &lo2 - &tol } else { BigUint::zero() };
                    let hi2b = &hi2 + &tol + super::c03::fixed_point_slack(mx, &d);
                    g >= lo2b && g <= hi2b
                }
                _ => false,
            };
            if beyond <= six || by_d {
                v.finding = Some("S11-quote-accuracy-within-8-units".into());
                v.truncate = false;
                if by_d && beyond > six {
                    c.stats.bump("probe.c19.s11_explained_by_two_units_of_d");
                }
            }
            return Err(v);
        }
        c.stats.sig(&[
            "quote",
            &rs.len().to_string(),
            &format!("{:?}", pool.asset_decimals),
            &(amp.max(1).ilog10()).to_string(),
            &(offer.max(1).ilog10() / 3).to_string(),
            &((rs[i] / rs[j].max(1)).max(1).ilog10()).to_string(),
        ]);
        Ok(())
    }
}

impl Monitor for C19 {
    fn pre(&mut self, c: &mut SimCore, step: &Step, pre: &Obs) -> MResult {
        if let Op::Pm { msg: PmMsg::Swap { ask_asset_denom, pool_identifier, .. }, funds, .. } = &step.op {
            let m = coins_to_map(funds);
            if m.len() != 1 {
                return Ok(());
            }
            let (od, oa) = m.iter().next().unwrap();
            let p = match pre.pool(pool_identifier) {
                Some(p) => p.pool_info.clone(),
                None => return Ok(()),
            };
            if !matches!(p.pool_type, PoolType::StableSwap { .. }) {
                return Ok(());
            }
            let (Some(i), Some(j)) = (p.asset_denoms.iter().position(|d| d == od), p.asset_denoms.iter().position(|d| d == ask_asset_denom)) else {
                return Ok(());
            };
            if i == j {
                return Ok(());
            }
            // a trade of an asset against itself has no solution: quotes and route hops must refuse it
            for k in [i, j] {
                let d = p.asset_denoms[k].clone();
                let amt = (order(&p)[k] / 1000).max(1);
                let q: Result<SimulationResponse, _> = c.w.app.wrap().query_wasm_smart(
                    c.w.a.pm.to_string(),
                    &QueryMsg::Simulation { offer_asset: coin(amt, d.clone()), ask_asset_denom: d.clone(), pool_identifier: p.pool_identifier.clone() },
                );
                c.stats.bump("probe.c19.same_asset_quote_probed");
                if let Ok(q) = q {
                    return Err(viol(
                        "C19.same_asset_trade_priced",
                        format!("pool {}: offering {amt}{d} for {d} is quoted {} instead of being refused", p.pool_identifier, q.return_amount),
                    ));
                }
            }
            let ri = order(&p)[i];
            let mut offers = vec![*oa, 1, 10, ri / 1000 + 1, ri / 10 + 1, ri, ri.saturating_mul(3)];
            offers.sort();
            offers.dedup();
            for o in offers {
                self.check_quote(c, &p, i, j, o)?;
                self.check_quote(c, &p, j, i, o)?;
            }
        }
        Ok(())
    }

    fn post(&mut self, c: &mut SimCore, step: &Step, pre: &Obs, out: &TxOut, post: &Obs) -> MResult {
        // first deposit on a stableswap pool: the invariant used to mint is within two units of the exact root
        if let Op::Pm { msg: PmMsg::ProvideLiquidity { pool_identifier, .. }, .. } = &step.op {
            if !out.ok() {
                return Ok(());
            }
            let (Some(p0), Some(p1)) = (pre.pool(pool_identifier), post.pool(pool_identifier)) else {
                return Ok(());
            };
            if let PoolType::StableSwap { amp } = p1.pool_info.pool_type {
                if p0.total_share.amount.is_zero() && !p1.total_share.amount.is_zero() {
                    let s = supply(&post.bal, &p1.pool_info.lp_denom);
                    let _ = locked_min(&p1.pool_info);
                    let rs = order(&p1.pool_info);
                    if let Some((xs, _)) = normalise(&rs, &p1.pool_info.asset_decimals) {
                        if !within_stated_skew(&xs) {
                            // outside the stated range the contract may refuse, but a deposit it accepts is
                            // never minted from a grossly wrong invariant: within two parts in 10^4 (ill-
                            // conditioned, extremely skewed first deposits were seen to lose 1.5 x 10^-6, cf. S9; dust pools are left alone)
                            if !super::c03::degenerate(&p1.pool_info, &rs) || rs.iter().all(|x| *x >= 1000) {
                                let st = Stable::new(amp, rs.len());
                                if let Some(d) = st.d_scaled(&xs) {
                                    let lo = &d / res();
                                    let sb = BigUint::from(supply(&post.bal, &p1.pool_info.lp_denom));
                                    let diff = if sb > lo { &sb - &lo } else { &lo - &sb };
                                    c.stats.bump("probe.c19.first_mint_checked_outside_range");
                                    // tolerance: 2 parts in 10^4, plus the granularity of the contract's integer
                                    // divisions by the smallest reserve (each floors away up to 1/x of its value:
                                    // with reserves of ~1500 units the minted total was seen 2.2 x 10^-4 off)
                                    let min_units = BigUint::from(rs.iter().copied().min().unwrap_or(1).max(1));
                                    let tol = &lo / BigUint::from(5_000u32) + &lo * BigUint::from(8u32) / &min_units + BigUint::from(64u32);
                                    if diff > tol {
                                        let settles = contract_d_iteration_settles(&xs, amp);
                                        let mut v = viol(
                                            "C19.mint_invariant_grossly_wrong",
                                            format!("first deposit {:?} (decimals {:?}, amp {amp}) minted total {sb} LP, exact invariant {lo}: off by more than two parts in ten thousand plus the integer granularity of the smallest reserve", rs, p1.pool_info.asset_decimals),
                                        );
                                        // envelope S14: the contract's own iteration runs out of its 255 rounds
                                        // (first deposits skewed by some 30 orders of magnitude) and the last
                                        // iterate is used as if it were the invariant
                                        if !settles {
                                            v.finding = Some("S14-d-iteration-runs-out".into());
                                            v.truncate = false;
                                        }
                                        return Err(v);
                                    }
                                }
                            }
                            return Ok(());
                        }
                        let st = Stable::new(amp, rs.len());
                        if let Some(d) = st.d_scaled(&xs) {
                            let r = res();
                            let lo = &d / &r;
                            let sb = BigUint::from(s);
                            let diff = if sb > lo { &sb - &lo } else { &lo - &sb };
                            c.stats.bump("probe.c19.first_mint_checked");
                            if diff > BigUint::from(3u32) {
                                let mut v = viol(
                                    "C19.mint_invariant_inaccurate",
                                    format!("first deposit {:?} (decimals {:?}, amp {amp}) minted total {s} LP, exact invariant {lo}", rs, p1.pool_info.asset_decimals),
                                );
                                // envelope S8: integer Newton with n successive floor divisions per
                                // step stops within a few units of the root, not within two
                                // a few dozen units, or 10^-18 of the invariant for huge pools
                                if diff <= BigUint::from(64u32) + &lo / BigUint::from(10u64).pow(18) {
                                    v.finding = Some("S8-mint-d-accuracy".into());
                                    v.truncate = false;
                                }
                                return Err(v);
                            }
                        }
                    }
                }
            }
        }
        Ok(())
    }
}
