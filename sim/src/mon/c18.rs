//! C18 — epochs partition time: derived ids are monotone and consistent.

use std::collections::BTreeMap;

use cosmwasm_std::Addr;
use mantra_dex_std::epoch_manager::{EpochResponse, ExecuteMsg as EmMsg, QueryMsg as EmQuery};

use crate::sim::{viol, MResult, Monitor, Obs, SimCore};
use crate::trace::{Op, Step};
use crate::world::TxOut;

#[derive(Default)]
pub struct C18 {
    /// per epoch manager: (genesis, duration) -> last observed (now, id)
    last: BTreeMap<String, ((u64, u64), (u64, u64))>,
}

const MAX_TS_SECONDS: u64 = u64::MAX / 1_000_000_000;

fn expected_start(genesis: u64, duration: u64, id: u64) -> Option<u64> {
    let s = genesis.checked_add(id.checked_mul(duration)?)?;
    if s > MAX_TS_SECONDS {
        return None; // not representable as a Timestamp: must fail cleanly, never wrap
    }
    Some(s)
}

impl C18 {
    fn probe(&mut self, c: &mut SimCore, em: &Addr) -> MResult {
        let cfg = c.w.em_config(em).epoch_config;
        let (g, d) = (cfg.genesis_epoch.u64(), cfg.duration.u64());
        let now = c.w.now();
        let cur: Result<EpochResponse, _> = c.w.app.wrap().query_wasm_smart(em.to_string(), &EmQuery::CurrentEpoch {});
        if d < 86_400 {
            return Err(viol("C18.short_duration_stored", format!("epoch manager {em} runs with duration {d} < 1 day")));
        }
        if now < g {
            c.stats.bump("probe.c18.before_genesis");
            if let Ok(r) = cur {
                return Err(viol("C18.epoch_before_genesis", format!("now {now} < genesis {g} but CurrentEpoch answered {:?}", r.epoch)));
            }
        } else {
            let id = (now - g) / d;
            match (expected_start(g, d, id), &cur) {
                (Some(s), Ok(r)) => {
                    if r.epoch.id != id || r.epoch.start_time.seconds() != s || r.epoch.start_time.subsec_nanos() != 0 {
                        return Err(viol(
                            "C18.current_epoch",
                            format!("genesis {g} duration {d} now {now}: expected epoch {id} starting {s}, got id {} start {}", r.epoch.id, r.epoch.start_time),
                        ));
                    }
                    // now in [start(cur), start(cur+1))
                    if !(s <= now && (now - s) < d) {
                        return Err(viol("C18.now_outside_epoch", format!("now {now} not in [{s}, {s}+{d})")));
                    }
                    if now == s {
                        c.stats.bump("probe.c18.exactly_on_boundary");
                    } else if (now - s) + 1 == d {
                        c.stats.bump("probe.c18.last_second_of_epoch");
                    }
                    // monotone for a fixed configuration
                    let key = em.to_string();
                    if let Some(((g0, d0), (t0, id0))) = self.last.get(&key) {
                        if (*g0, *d0) == (g, d) {
                            if id < *id0 {
                                return Err(viol("C18.epoch_went_back", format!("epoch id {id0} at {t0} but {id} at {now}")));
                            }
                            // exactly one id per `duration` seconds: the id moved by the number of
                            // boundaries crossed since the previous observation
                            let crossed = (now - g) / d - (t0 - g) / d;
                            if id - id0 != crossed {
                                return Err(viol("C18.epoch_step", format!("from {t0} (id {id0}) to {now}: {crossed} boundaries crossed but id moved to {id}")));
                            }
                        }
                    }
                    self.last.insert(key, ((g, d), (now, id)));
                }
                (Some(s), Err(e)) => {
                    return Err(viol("C18.current_epoch_unavailable", format!("genesis {g} duration {d} now {now}: epoch {id} starting {s} is representable but the query failed: {e}")));
                }
                (None, Ok(r)) => {
                    return Err(viol("C18.wrapped", format!("epoch {id} start overflows but the query answered {:?}", r.epoch)));
                }
                (None, Err(_)) => {
                    c.stats.bump("probe.c18.overflow_refused_cleanly");
                }
            }
            // Epoch{id} for a few ids
            let ids = [0u64, 1, id, id.saturating_add(1), id.saturating_add(1000), u64::MAX / d.max(1), u64::MAX, (MAX_TS_SECONDS.saturating_sub(g)) / d, ((MAX_TS_SECONDS.saturating_sub(g)) / d).saturating_add(1)];
            for i in ids {
                let r: Result<EpochResponse, _> = c.w.app.wrap().query_wasm_smart(em.to_string(), &EmQuery::Epoch { id: i });
                match (expected_start(g, d, i), r) {
                    (Some(s), Ok(r)) => {
                        if r.epoch.id != i || r.epoch.start_time.seconds() != s {
                            return Err(viol("C18.epoch_start", format!("Epoch{{{i}}} = {:?}, expected start {s}", r.epoch)));
                        }
                    }
                    (Some(s), Err(e)) => return Err(viol("C18.epoch_start_unavailable", format!("Epoch{{{i}}} with representable start {s} failed: {e}"))),
                    (None, Ok(r)) => return Err(viol("C18.wrapped", format!("Epoch{{{i}}} overflows (genesis {g}, duration {d}) but answered {:?}", r.epoch))),
                    (None, Err(_)) => {
                        c.stats.bump("probe.c18.overflow_refused_cleanly");
                    }
                }
            }
        }
        c.stats.sig(&[
            "probe",
            if now < g { "pre" } else { "post" },
            &(d.max(1).ilog2() / 4).to_string(),
            &(((now.saturating_sub(g)) / d.max(1)).min(u32::MAX as u64).max(1).ilog2() / 3).to_string(),
            match (now.saturating_sub(g)) % d.max(1) {
                0 => "b0",
                1 => "b1",
                x if x + 1 == d => "b-1",
                _ => "mid",
            },
        ]);
        Ok(())
    }
}

impl Monitor for C18 {
    fn post(&mut self, c: &mut SimCore, step: &Step, _pre: &Obs, out: &TxOut, _post: &Obs) -> MResult {
        let now = c.w.now();
        match &step.op {
            Op::EpochNew { genesis, duration } => {
                if out.ok() && (*duration < 86_400 || *genesis < now) {
                    return Err(viol("C18.bad_config_accepted", format!("instantiate accepted genesis {genesis} (now {now}) duration {duration}")));
                }
                c.stats.bump(if out.ok() { "probe.c18.instantiate_ok" } else { "probe.c18.instantiate_refused" });
            }
            Op::Em { msg: EmMsg::UpdateConfig { epoch_config: Some(ec) }, .. } => {
                if out.ok() && (ec.duration.u64() < 86_400 || ec.genesis_epoch.u64() < now) {
                    return Err(viol("C18.bad_config_accepted", format!("update accepted genesis {} (now {now}) duration {}", ec.genesis_epoch, ec.duration)));
                }
                if out.ok() {
                    c.stats.bump("probe.c18.config_updated");
                    if ec.genesis_epoch.u64() == now {
                        c.stats.bump("probe.c18.genesis_equals_now");
                    }
                }
            }
            _ => {}
        }
        let sys = c.w.a.em.clone();
        self.probe(c, &sys)?;
        let pe = c.probe_em.clone();
        if pe != sys {
            self.probe(c, &pe)?;
        }
        // the farm manager stamps weights with current + 1 of the system epoch manager
        Ok(())
    }
}
