//! C16 — pool creation charges exact fees; pool parameters are unique and immutable.

use std::collections::BTreeMap;

use cosmwasm_std::Decimal;
use mantra_dex_std::pool_manager::{ExecuteMsg as PmMsg, PoolInfo, PoolType};

use super::util::*;
use crate::sim::{coins_to_map, viol, MResult, Monitor, Obs, SimCore};
use crate::trace::{Op, Step};
use crate::world::TxOut;

#[derive(Default)]
pub struct C16 {
    /// every pool ever seen, as first observed
    created: BTreeMap<String, PoolInfo>,
}

fn immutable_eq(a: &PoolInfo, b: &PoolInfo) -> bool {
    a.pool_identifier == b.pool_identifier
        && a.asset_denoms == b.asset_denoms
        && a.asset_decimals == b.asset_decimals
        && a.pool_type == b.pool_type
        && a.pool_fees == b.pool_fees
        && a.lp_denom == b.lp_denom
        && a.assets.iter().map(|c| &c.denom).collect::<Vec<_>>() == b.assets.iter().map(|c| &c.denom).collect::<Vec<_>>()
}

impl Monitor for C16 {
    fn post(&mut self, c: &mut SimCore, step: &Step, pre: &Obs, out: &TxOut, post: &Obs) -> MResult {
        let pm = c.w.a.pm.to_string();
        if let Op::Pm { sender, msg: PmMsg::CreatePool { asset_denoms, asset_decimals, pool_fees, pool_type, pool_identifier }, funds } = &step.op {
            let cfg = c.w.pm_config(); // creation does not change the config
            let fc = cfg.fee_collector_addr.to_string();
            // exact required funds
            let mut need: BTreeMap<String, u128> = BTreeMap::new();
            if !cfg.pool_creation_fee.amount.is_zero() {
                *need.entry(cfg.pool_creation_fee.denom.clone()).or_insert(0) += cfg.pool_creation_fee.amount.u128();
            }
            for f in c.w.cfg.tf_fees.iter() {
                if !f.amount.is_zero() {
                    *need.entry(f.denom.clone()).or_insert(0) += f.amount.u128();
                }
            }
            let mut paid = coins_to_map(funds);
            paid.retain(|_, v| *v > 0);
            let funds_exact = paid == need;
            let n = asset_denoms.len();
            let distinct = {
                let mut d = asset_denoms.clone();
                d.sort();
                d.dedup();
                d.len() == n
            };
            let shape_ok = match pool_type {
                PoolType::ConstantProduct => n == 2,
                PoolType::StableSwap { amp } => (2..=4).contains(&n) && *amp > 0,
            } && distinct
                && asset_decimals.len() == n;
            let each_ok = |s: Decimal| s < Decimal::one();
            let mut total = Decimal::zero();
            let mut fees_ok = each_ok(pool_fees.protocol_fee.share) && each_ok(pool_fees.swap_fee.share) && each_ok(pool_fees.burn_fee.share);
            total = total + pool_fees.protocol_fee.share + pool_fees.swap_fee.share + pool_fees.burn_fee.share;
            for e in pool_fees.extra_fees.iter() {
                fees_ok &= each_ok(e.share);
                total = total.checked_add(e.share).unwrap_or(Decimal::MAX);
            }
            fees_ok &= total <= Decimal::percent(20);
            let full_id = match pool_identifier {
                Some(id) => format!("o.{id}"),
                None => String::new(),
            };
            let id_ok = match pool_identifier {
                Some(_) => {
                    full_id.len() + 3 <= 44 && full_id.chars().all(|ch| ch.is_ascii_alphanumeric() || ch == '/' || ch == '.')
                }
                None => true,
            };
            let id_free = pool_identifier.is_none() || pre.pool(&full_id).is_none();
            let must_reject = !(funds_exact && shape_ok && fees_ok && id_ok && id_free);
            c.stats.bump(if must_reject { "probe.c16.invalid_create" } else { "probe.c16.valid_create" });
            // ---- every fee configuration is usable: a creation that meets every documented condition
            // (and that the creator can pay for, with nothing injected or frozen) is accepted
            if !out.ok() && !must_reject {
                let affordable = funds.iter().all(|f| crate::world::bal(&pre.bal, sender, &f.denom) >= f.amount.u128());
                let undisturbed = step.fault.is_none() && out.report.fault_fired == 0 && out.report.frozen_fired == 0 && crate::seams::get_frozen().is_empty();
                if affordable && undisturbed {
                    return Err(viol(
                        "C16.valid_create_refused",
                        format!(
                            "creation meeting every documented condition (paid {:?} = needed {:?}, {n} assets, decimals {:?}) is refused: {}",
                            paid, need, asset_decimals, out.err_text().rsplit(": ").next().unwrap_or("")
                        ),
                    ));
                }
            }
            if out.ok() && must_reject {
                return Err(viol(
                    "C16.accepted_invalid",
                    format!(
                        "pool created although funds_exact={funds_exact} (paid {:?}, need {:?}) shape_ok={shape_ok} fees_ok={fees_ok} id_ok={id_ok} id_free={id_free}",
                        paid, need
                    ),
                ));
            }
            if out.ok() {
                // the new pool
                let new: Vec<_> = post.pools.iter().filter(|p| pre.pool(&p.pool_info.pool_identifier).is_none()).collect();
                if new.len() != 1 {
                    return Err(viol("C16.create_effects", format!("{} pools appeared after one CreatePool", new.len())));
                }
                let p = &new[0].pool_info;
                if pool_identifier.is_some() && p.pool_identifier != full_id {
                    return Err(viol("C16.create_effects", format!("explicit id {full_id} produced pool {}", p.pool_identifier)));
                }
                if pool_identifier.is_none() && !p.pool_identifier.starts_with("p.") {
                    return Err(viol("C16.create_effects", format!("generated id {} lacks the p. prefix", p.pool_identifier)));
                }
                let st = &p.status;
                if &p.asset_denoms != asset_denoms
                    || &p.asset_decimals != asset_decimals
                    || &p.pool_type != pool_type
                    || &p.pool_fees != pool_fees
                    || p.assets.iter().any(|a| !a.amount.is_zero())
                    || p.assets.iter().map(|a| a.denom.clone()).collect::<Vec<_>>() != *asset_denoms
                    || !(st.swaps_enabled && st.deposits_enabled && st.withdrawals_enabled)
                    || !new[0].total_share.amount.is_zero()
                    || p.lp_denom != format!("factory/{}/{}.LP", pm, p.pool_identifier)
                {
                    return Err(viol("C16.create_effects", format!("new pool does not match the request / is not empty+enabled: {:?}", p)));
                }
                // money: creator pays exactly need; collector gets the creation fee; tf fee burned; nothing kept
                let mut exp: BTreeMap<(String, String), i128> = BTreeMap::new();
                for (d, a) in need.iter() {
                    add_delta(&mut exp, sender, d, -(*a as i128));
                }
                if !cfg.pool_creation_fee.amount.is_zero() {
                    add_delta(&mut exp, &fc, &cfg.pool_creation_fee.denom, cfg.pool_creation_fee.amount.u128() as i128);
                }
                let got = deltas(&pre.bal, &post.bal);
                if got != exp {
                    return Err(viol(
                        "C16.create_money",
                        format!("balance deltas [{}] expected [{}]", fmt_deltas(&c.w.a, &got), fmt_deltas(&c.w.a, &exp)),
                    ));
                }
                c.stats.sig(&[
                    "create",
                    pool_type.get_label(),
                    &n.to_string(),
                    if pool_identifier.is_some() { "explicit" } else { "auto" },
                    &need.len().to_string(),
                    &pool_fees.extra_fees.len().to_string(),
                ]);
            } else {
                c.stats.sig(&["create_rej", &funds_exact.to_string(), &shape_ok.to_string(), &fees_ok.to_string(), &id_ok.to_string(), &id_free.to_string()]);
            }
        }
        // ---- after every step: nothing created earlier changed or vanished; ids and LP denoms unique
        for p in post.pools.iter() {
            self.created.entry(p.pool_info.pool_identifier.clone()).or_insert_with(|| p.pool_info.clone());
        }
        for (id, orig) in self.created.iter() {
            match post.pool(id) {
                None => return Err(viol("C16.pool_removed", format!("pool {id} is no longer listed after {}", step.op.kind()))),
                Some(p) => {
                    if !immutable_eq(orig, &p.pool_info) {
                        return Err(viol(
                            "C16.pool_mutated",
                            format!("pool {id} changed after {}: was {:?} now {:?}", step.op.kind(), orig, p.pool_info),
                        ));
                    }
                }
            }
        }
        let mut ids: Vec<&String> = post.pools.iter().map(|p| &p.pool_info.pool_identifier).collect();
        let mut lps: Vec<&String> = post.pools.iter().map(|p| &p.pool_info.lp_denom).collect();
        let (n1, n2) = (ids.len(), lps.len());
        ids.sort();
        ids.dedup();
        lps.sort();
        lps.dedup();
        if ids.len() != n1 || lps.len() != n2 {
            return Err(viol("C16.not_unique", "pool identifiers or LP denoms collide".into()));
        }
        if !matches!(step.op, Op::Pm { msg: PmMsg::CreatePool { .. }, .. }) {
            c.stats.sig(&["later", step.op.kind(), &post.pools.len().to_string()]);
        }
        Ok(())
    }
}
