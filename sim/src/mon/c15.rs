//! C15 — only authorised parties can perform privileged actions.
//! On `Audit` steps (and after every ownership action) the complete matrix
//! (contract x privileged message x sender role x with/without funds) is executed on forks.

use std::collections::BTreeSet;

use cosmwasm_std::{coin, Addr, Coin, Decimal};
use cw_ownable::Action;
use mantra_dex_std::epoch_manager::ExecuteMsg as EmMsg;
use mantra_dex_std::farm_manager::{ExecuteMsg as FmMsg, FarmAction, FarmParams, PositionAction};
use mantra_dex_std::fee_collector::ExecuteMsg as FcMsg;
use mantra_dex_std::pool_manager::{ExecuteMsg as PmMsg, FeatureToggle};

use crate::sim::{viol, MResult, Monitor, Obs, SimCore};
use crate::trace::{Op, Step};
use crate::world::TxOut;

#[derive(Default)]
pub struct C15 {
    former: BTreeSet<String>,
}

#[derive(Clone)]
enum Rule {
    /// accepted only from the contract's current owner, never with funds
    Owner(Addr),
    /// accepted only from the pending owner of the contract, before expiry, never with funds
    Pending(Addr),
    /// farm expansion: only the farm's owner (funds are the expansion itself)
    FarmOwner(String),
    /// farm close: farm owner or contract owner, never with funds
    FarmOwnerOrContractOwner(String),
    /// position close / withdraw: only the position's owner, never with funds
    PositionOwner(String),
    /// position expand: the owner or the pool manager (funds are the expansion)
    PositionOwnerOrPm(String),
    /// position creation for someone else: only the pool manager
    CreateFor(String),
}

fn ownership_msgs(candidates: &[Addr], now: u64) -> Vec<(Action, bool)> {
    // (action, is_accept)
    vec![
        (Action::TransferOwnership { new_owner: candidates[0].to_string(), expiry: None }, false),
        (
            Action::TransferOwnership {
                new_owner: candidates[1 % candidates.len()].to_string(),
                expiry: Some(cw_utils::Expiration::AtTime(cosmwasm_std::Timestamp::from_seconds(now + 1000))),
            },
            false,
        ),
        (Action::AcceptOwnership, true),
        (Action::RenounceOwnership, false),
    ]
}

impl C15 {
    fn audit(&mut self, c: &mut SimCore, obs: &Obs) -> MResult {
        let a = c.w.a.clone();
        let now = c.w.now();
        let block = c.w.app.block_info();
        let contracts = [a.pm.clone(), a.fm.clone(), a.em.clone(), a.fc.clone(), a.fc2.clone()];
        // ---- the matrix of messages: (label, op builder, rule)
        let mut cells: Vec<(String, Box<dyn Fn(&str, Vec<Coin>) -> Op>, Rule, bool)> = vec![]; // bool: funds are part of the message
        let pool_id = obs.pools.first().map(|p| p.pool_info.pool_identifier.clone());
        // pool manager config
        let pm_cfgs: Vec<(&str, PmMsg)> = {
            let mut v = vec![
                ("pm.cfg.fee_collector", PmMsg::UpdateConfig { fee_collector_addr: Some(a.alt[0].to_string()), farm_manager_addr: None, pool_creation_fee: None, feature_toggle: None }),
                ("pm.cfg.farm_manager", PmMsg::UpdateConfig { fee_collector_addr: None, farm_manager_addr: Some(a.alt[1].to_string()), pool_creation_fee: None, feature_toggle: None }),
                ("pm.cfg.creation_fee", PmMsg::UpdateConfig { fee_collector_addr: None, farm_manager_addr: None, pool_creation_fee: Some(coin(5, "uom")), feature_toggle: None }),
                ("pm.cfg.empty", PmMsg::UpdateConfig { fee_collector_addr: None, farm_manager_addr: None, pool_creation_fee: None, feature_toggle: None }),
            ];
            if let Some(pid) = &pool_id {
                for (i, name) in ["pm.toggle.swaps", "pm.toggle.deposits", "pm.toggle.withdrawals"].iter().enumerate() {
                    let mut ft = FeatureToggle { pool_identifier: pid.clone(), withdrawals_enabled: None, deposits_enabled: None, swaps_enabled: None };
                    match i {
                        0 => ft.swaps_enabled = Some(false),
                        1 => ft.deposits_enabled = Some(false),
                        _ => ft.withdrawals_enabled = Some(false),
                    }
                    v.push((name, PmMsg::UpdateConfig { fee_collector_addr: None, farm_manager_addr: None, pool_creation_fee: None, feature_toggle: Some(ft) }));
                }
            }
            v
        };
        for (name, m) in pm_cfgs {
            let m2 = m.clone();
            cells.push((name.to_string(), Box::new(move |s, f| Op::Pm { sender: s.to_string(), msg: m2.clone(), funds: f }), Rule::Owner(a.pm.clone()), false));
        }
        // farm manager config: every field, with values valid in the current configuration
        let fc0 = c.w.fm_config();
        let none = FmMsg::UpdateConfig {
            fee_collector_addr: None,
            epoch_manager_addr: None,
            pool_manager_addr: None,
            create_farm_fee: None,
            max_concurrent_farms: None,
            max_farm_epoch_buffer: None,
            min_unlocking_duration: None,
            max_unlocking_duration: None,
            farm_expiration_time: None,
            emergency_unlock_penalty: None,
        };
        for i in 0..10 {
            let mut m = none.clone();
            if let FmMsg::UpdateConfig {
                fee_collector_addr,
                epoch_manager_addr,
                pool_manager_addr,
                create_farm_fee,
                max_concurrent_farms,
                max_farm_epoch_buffer,
                min_unlocking_duration,
                max_unlocking_duration,
                farm_expiration_time,
                emergency_unlock_penalty,
            } = &mut m
            {
                match i {
                    0 => *fee_collector_addr = Some(a.alt[0].to_string()),
                    1 => *epoch_manager_addr = Some(a.alt[1].to_string()),
                    2 => *pool_manager_addr = Some(a.alt[2].to_string()),
                    3 => *create_farm_fee = Some(coin(7, "uom")),
                    4 => *max_concurrent_farms = Some(fc0.max_concurrent_farms + 1),
                    5 => *max_farm_epoch_buffer = Some(9),
                    6 => *min_unlocking_duration = Some(fc0.min_unlocking_duration),
                    7 => *max_unlocking_duration = Some(fc0.max_unlocking_duration),
                    8 => *farm_expiration_time = Some(3_000_000),
                    _ => *emergency_unlock_penalty = Some(Decimal::percent(3)),
                }
            }
            let m2 = m.clone();
            cells.push((format!("fm.cfg.{i}"), Box::new(move |s, f| Op::Fm { sender: s.to_string(), msg: m2.clone(), funds: f }), Rule::Owner(a.fm.clone()), false));
        }
        // epoch manager config
        let emc = EmMsg::UpdateConfig {
            epoch_config: Some(mantra_dex_std::epoch_manager::EpochConfig { duration: 90_000u64.into(), genesis_epoch: (now + 10).into() }),
        };
        cells.push(("em.cfg".into(), Box::new(move |s, f| Op::Em { sender: s.to_string(), msg: emc.clone(), funds: f }), Rule::Owner(a.em.clone()), false));
        // configuration messages that change nothing are still the owner's alone (pm.cfg.empty above)
        cells.push(("em.cfg.empty".into(), Box::new(move |s, f| Op::Em { sender: s.to_string(), msg: EmMsg::UpdateConfig { epoch_config: None }, funds: f }), Rule::Owner(a.em.clone()), false));
        let none2 = none.clone();
        cells.push(("fm.cfg.empty".into(), Box::new(move |s, f| Op::Fm { sender: s.to_string(), msg: none2.clone(), funds: f }), Rule::Owner(a.fm.clone()), false));
        // ownership actions on all contracts
        let cands = [a.stranger.clone(), a.owner2.clone()];
        for (ci, ct) in contracts.iter().enumerate() {
            for (k, (act, is_accept)) in ownership_msgs(&cands, now).into_iter().enumerate() {
                let rule = if is_accept { Rule::Pending(ct.clone()) } else { Rule::Owner(ct.clone()) };
                let act2 = act.clone();
                let b: Box<dyn Fn(&str, Vec<Coin>) -> Op> = match ci {
                    0 => Box::new(move |s, f| Op::Pm { sender: s.to_string(), msg: PmMsg::UpdateOwnership(act2.clone()), funds: f }),
                    1 => Box::new(move |s, f| Op::Fm { sender: s.to_string(), msg: FmMsg::UpdateOwnership(act2.clone()), funds: f }),
                    2 => Box::new(move |s, f| Op::Em { sender: s.to_string(), msg: EmMsg::UpdateOwnership(act2.clone()), funds: f }),
                    3 => Box::new(move |s, f| Op::Fc { sender: s.to_string(), which: 0, msg: FcMsg::UpdateOwnership(act2.clone()), funds: f }),
                    _ => Box::new(move |s, f| Op::Fc { sender: s.to_string(), which: 1, msg: FcMsg::UpdateOwnership(act2.clone()), funds: f }),
                };
                cells.push((format!("own.{ci}.{k}"), b, rule, false));
            }
        }
        // farms: expand and close every live farm
        for f in obs.farms.iter() {
            let id = f.identifier.clone();
            let rate = f.emission_rate.u128().max(1);
            let p = FarmParams {
                lp_denom: f.lp_denom.clone(),
                start_epoch: None,
                preliminary_end_epoch: None,
                curve: None,
                farm_asset: coin(rate, f.farm_asset.denom.clone()),
                farm_identifier: Some(id.clone()),
            };
            let fund = coin(rate, f.farm_asset.denom.clone());
            cells.push((
                format!("farm.expand.{id}"),
                Box::new(move |s, _| Op::Fm { sender: s.to_string(), msg: FmMsg::ManageFarm { action: FarmAction::Expand { params: p.clone() } }, funds: vec![fund.clone()] }),
                Rule::FarmOwner(f.owner.to_string()),
                true,
            ));
            let id2 = id.clone();
            cells.push((
                format!("farm.close.{id}"),
                Box::new(move |s, fu| Op::Fm { sender: s.to_string(), msg: FmMsg::ManageFarm { action: FarmAction::Close { farm_identifier: id2.clone() } }, funds: fu }),
                Rule::FarmOwnerOrContractOwner(f.owner.to_string()),
                false,
            ));
        }
        // positions: a few of them
        for p in obs.positions.iter().take(3) {
            let id = p.identifier.clone();
            let fund = coin(1, p.lp_asset.denom.clone());
            let id1 = id.clone();
            cells.push((
                format!("pos.expand.{id}"),
                Box::new(move |s, _| Op::Fm { sender: s.to_string(), msg: FmMsg::ManagePosition { action: PositionAction::Expand { identifier: id1.clone() } }, funds: vec![fund.clone()] }),
                Rule::PositionOwnerOrPm(p.receiver.to_string()),
                true,
            ));
            let id2 = id.clone();
            cells.push((
                format!("pos.close.{id}"),
                Box::new(move |s, fu| Op::Fm { sender: s.to_string(), msg: FmMsg::ManagePosition { action: PositionAction::Close { identifier: id2.clone(), lp_asset: None } }, funds: fu }),
                Rule::PositionOwner(p.receiver.to_string()),
                false,
            ));
            let id3 = id.clone();
            cells.push((
                format!("pos.withdraw.{id}"),
                Box::new(move |s, fu| Op::Fm { sender: s.to_string(), msg: FmMsg::ManagePosition { action: PositionAction::Withdraw { identifier: id3.clone(), emergency_unlock: Some(true) } }, funds: fu }),
                Rule::PositionOwner(p.receiver.to_string()),
                false,
            ));
            let rc = p.receiver.to_string();
            let fund2 = coin(1, p.lp_asset.denom.clone());
            cells.push((
                format!("pos.create_for.{id}"),
                Box::new(move |s, _| Op::Fm {
                    sender: s.to_string(),
                    msg: FmMsg::ManagePosition { action: PositionAction::Create { identifier: None, unlocking_duration: 86_400, receiver: Some(rc.clone()) } },
                    funds: vec![fund2.clone()],
                }),
                Rule::CreateFor(p.receiver.to_string()),
                true,
            ));
        }
        // topping up a position THROUGH the pool manager (its only delegate): a locked deposit naming
        // an existing position must only ever add to the depositor's own position
        for p in obs.positions.iter().filter(|p| p.open).take(3) {
            if let Some(pool) = obs.pool_by_lp(&p.lp_asset.denom) {
                let pi = &pool.pool_info;
                if pi.assets.iter().any(|a| a.amount.is_zero()) {
                    continue;
                }
                let pid = pi.pool_identifier.clone();
                let posid = p.identifier.clone();
                let dur = p.unlocking_duration;
                // single asset (2-asset pools only) and all assets in pool proportion
                let mut variants: Vec<(String, Vec<Coin>)> = vec![];
                if pi.assets.len() == 2 {
                    let a0 = &pi.assets[0];
                    variants.push(("single".into(), vec![coin((a0.amount.u128() / 500).max(2) & !1u128, a0.denom.clone())]));
                }
                let mut all: Vec<Coin> = pi.assets.iter().map(|a| coin((a.amount.u128() / 1000).max(1), a.denom.clone())).collect();
                all.sort_by(|x, y| x.denom.cmp(&y.denom));
                variants.push(("all".into(), all));
                for (vn, funds) in variants {
                    // with the position's own duration and with a present-but-zero one; for the
                    // depositor themselves and "on behalf of" the position's owner
                    for (dn, d) in [("", dur), (".zero", 0u64)] {
                        for (rn, recv) in [("", None), (".recv_owner", Some(p.receiver.to_string()))] {
                            let (pid2, posid2, funds2, recv2) = (pid.clone(), posid.clone(), funds.clone(), recv.clone());
                            cells.push((
                                format!("pm.lock_{vn}{dn}{rn}.{posid}"),
                                Box::new(move |s, _| Op::Pm {
                                    sender: s.to_string(),
                                    msg: PmMsg::ProvideLiquidity {
                                        liquidity_max_slippage: None,
                                        swap_max_slippage: Some(Decimal::percent(50)),
                                        receiver: recv2.clone(),
                                        pool_identifier: pid2.clone(),
                                        unlocking_duration: Some(d),
                                        lock_position_identifier: Some(posid2.clone()),
                                    },
                                    funds: funds2.clone(),
                                }),
                                Rule::PositionOwner(p.receiver.to_string()),
                                true,
                            ));
                        }
                    }
                }
            }
        }
        // locking a deposit into a NEW position for somebody else (no position named): only the
        // receiver themselves may do that through the pool manager
        for pool in obs.pools.iter().filter(|p| !p.total_share.amount.is_zero() && p.pool_info.assets.iter().all(|x| !x.amount.is_zero())).take(2) {
            let pi = &pool.pool_info;
            let mut all: Vec<Coin> = pi.assets.iter().map(|x| coin((x.amount.u128() / 1000).max(1), x.denom.clone())).collect();
            all.sort_by(|x, y| x.denom.cmp(&y.denom));
            let mut variants: Vec<(String, Vec<Coin>)> = vec![("all".into(), all)];
            if pi.assets.len() == 2 {
                let a0 = &pi.assets[0];
                variants.push(("single".into(), vec![coin((a0.amount.u128() / 500).max(2) & !1u128, a0.denom.clone())]));
            }
            for rc in [a.users[0].to_string(), a.stranger.to_string()] {
                for (vn, funds) in variants.iter() {
                    for (dn, d) in [("", 86_400u64), (".zero", 0u64)] {
                        let (pid2, funds2, rc2) = (pi.pool_identifier.clone(), funds.clone(), rc.clone());
                        cells.push((
                            format!("pm.lock_new_{vn}{dn}.recv_owner.{}.{}", pi.pool_identifier, a.name(&rc)),
                            Box::new(move |s, _| Op::Pm {
                                sender: s.to_string(),
                                msg: PmMsg::ProvideLiquidity {
                                    liquidity_max_slippage: None,
                                    swap_max_slippage: Some(Decimal::percent(50)),
                                    receiver: Some(rc2.clone()),
                                    pool_identifier: pid2.clone(),
                                    unlocking_duration: Some(d),
                                    lock_position_identifier: None,
                                },
                                funds: funds2.clone(),
                            }),
                            Rule::PositionOwner(rc.clone()),
                            true,
                        ));
                    }
                }
            }
        }
        // ---- roles
        let mut roles: BTreeSet<String> = BTreeSet::new();
        for x in [&a.owner, &a.owner2, &a.stranger, &a.pm, &a.fm] {
            roles.insert(x.to_string());
        }
        for u in a.users.iter().take(2) {
            roles.insert(u.to_string());
        }
        for ct in contracts.iter() {
            let o = c.w.ownership(ct);
            if let Some(x) = o.owner {
                roles.insert(x.to_string());
            }
            if let Some(x) = o.pending_owner {
                roles.insert(x.to_string());
            }
        }
        for f in obs.farms.iter() {
            roles.insert(f.owner.to_string());
        }
        for p in obs.positions.iter().take(3) {
            roles.insert(p.receiver.to_string());
        }
        for f in self.former.iter() {
            roles.insert(f.clone());
        }
        // ---- run the matrix
        let snap = c.w.snapshot();
        let owners: std::collections::BTreeMap<String, cw_ownable::Ownership<Addr>> =
            contracts.iter().map(|ct| (ct.to_string(), c.w.ownership(ct))).collect();
        let pm_addr = c.w.fm_config().pool_manager_addr.to_string();
        for (label, build, rule, funds_inherent) in cells.iter() {
            for role in roles.iter() {
                for with_funds in [false, true] {
                    if *funds_inherent && with_funds {
                        continue;
                    }
                    // the pool manager addressing itself "on behalf of" a receiver is its own second
                    // leg of a single-asset deposit, not a principal anybody can act as
                    if label.contains(".recv_owner") && *role == a.pm.as_str() {
                        continue;
                    }
                    let extra = if with_funds { vec![coin(1, "uom")] } else { vec![] };
                    let op = build(role, extra);
                    // make sure the sender can afford whatever is attached (simulator-only, on the fork)
                    for f in op.funds() {
                        c.w.faucet(&Addr::unchecked(role), vec![f.clone()]);
                    }
                    let base = c.w.snapshot();
                    let o = c.exec_op(&op, None);
                    c.stats.forks += 1;
                    c.stats.bump("c15.matrix_cells");
                    let entitled = match rule {
                        Rule::Owner(ct) => c_owner(&owners[ct.as_str()], role) && !with_funds,
                        Rule::Pending(ct) => {
                            let ow = owners[ct.as_str()].clone();
                            let pend = ow.pending_owner.as_ref().map(|p| p.as_str() == role).unwrap_or(false);
                            let live = ow.pending_expiry.map(|e| !e.is_expired(&block)).unwrap_or(true);
                            pend && live && !with_funds
                        }
                        Rule::FarmOwner(fo) => fo == role,
                        Rule::FarmOwnerOrContractOwner(fo) => (fo == role || c_owner(&owners[a.fm.as_str()], role)) && !with_funds,
                        Rule::PositionOwner(po) => po == role && !with_funds,
                        Rule::PositionOwnerOrPm(po) => po == role || *role == pm_addr,
                        Rule::CreateFor(rc) => rc == role || *role == pm_addr,
                    };
                    if o.ok() && !entitled {
                        let det = format!("{label} from {} {} was accepted", a.name(role), if with_funds { "with funds" } else { "without funds" });
                        c.w.restore(&snap);
                        return Err(viol("C15.unauthorised_accepted", det));
                    }
                    if !o.ok() && !c.w.storage_eq(&base) {
                        let det = format!("{label} from {} rejected but state changed at {:?}", a.name(role), c.w.storage_diff(&base));
                        c.w.restore(&snap);
                        return Err(viol("C15.rejected_with_trace", det));
                    }
                    if o.ok() {
                        c.stats.bump("c15.matrix_accepted");
                    }
                    // distinct (message class, role class, funds, entitled, outcome) cells
                    let class: String = label.split('.').take(2).collect::<Vec<_>>().join(".");
                    let role_class = if *role == a.owner.as_str() {
                        "initial_owner"
                    } else if *role == a.owner2.as_str() {
                        "owner2"
                    } else if *role == a.stranger.as_str() {
                        "stranger"
                    } else if *role == a.pm.as_str() {
                        "pool_manager"
                    } else if *role == a.fm.as_str() {
                        "farm_manager"
                    } else {
                        "user"
                    };
                    c.stats.sig(&[&class, role_class, if with_funds { "funds" } else { "nofunds" }, if entitled { "entitled" } else { "not" }, if o.ok() { "ok" } else { "rej" }]);
                    c.w.restore(&snap);
                }
            }
        }
        c.w.restore(&snap);
        // coverage: which ownership states were audited
        for ct in contracts.iter().take(2) {
            let o = c.w.ownership(ct);
            let st = match (&o.owner, &o.pending_owner) {
                (None, _) => "renounced",
                (Some(_), Some(_)) => {
                    let exp = o.pending_expiry.map(|e| e.is_expired(&c.w.app.block_info())).unwrap_or(false);
                    if exp {
                        "pending_expired"
                    } else {
                        "pending"
                    }
                }
                (Some(x), None) => {
                    if *x == a.owner {
                        "initial"
                    } else {
                        "transferred"
                    }
                }
            };
            c.stats.bump(&format!("probe.c15.audited_state.{st}"));
            c.stats.sig(&["audit", st, &obs.farms.len().min(3).to_string(), &obs.positions.len().min(3).to_string()]);
        }
        Ok(())
    }
}

fn c_owner(o: &cw_ownable::Ownership<Addr>, role: &str) -> bool {
    o.owner.as_ref().map(|x| x.as_str() == role).unwrap_or(false)
}

impl Monitor for C15 {
    fn post(&mut self, c: &mut SimCore, step: &Step, pre: &Obs, out: &TxOut, post: &Obs) -> MResult {
        // nobody becomes the owner of an existing farm or position: a record that survives a step
        // under its identifier keeps its owner (a farm that had expired may be closed and its
        // identifier re-used by a new creation in the same message)
        if out.ok() {
            let now = c.w.now();
            for f0 in pre.farms.iter() {
                if let Some(f1) = post.farm(&f0.identifier) {
                    if f1.owner != f0.owner && super::c09::farm_expired(&c.w, f0, now) != Some(true) {
                        return Err(viol(
                            "C15.farm_owner_changed",
                            format!("farm {} of {} belongs to {} after {} by {}", f0.identifier, c.w.a.name(f0.owner.as_str()), c.w.a.name(f1.owner.as_str()), step.op.kind(), step.op.sender().map(|s| c.w.a.name(s)).unwrap_or_default()),
                        ));
                    }
                }
            }
            // closing a farm is reserved to its owner and the contract owner; anybody else's message
            // may only sweep farms that have expired
            let sender = step.op.sender().unwrap_or_default().to_string();
            let fm_owner = c.w.ownership(&c.w.a.fm).owner.map(|o| o.to_string()).unwrap_or_default();
            for f0 in pre.farms.iter() {
                if post.farm(&f0.identifier).is_none() && f0.owner.as_str() != sender && fm_owner != sender && super::c09::farm_expired(&c.w, f0, now) != Some(true) {
                    return Err(viol(
                        "C15.live_farm_closed_by_other",
                        format!("farm {} of {} (not expired) was closed by {} from {}", f0.identifier, c.w.a.name(f0.owner.as_str()), step.op.kind(), c.w.a.name(&sender)),
                    ));
                }
            }
            for p0 in pre.positions.iter() {
                if let Some(p1) = post.position(&p0.identifier) {
                    if p1.receiver != p0.receiver {
                        return Err(viol(
                            "C15.position_owner_changed",
                            format!("position {} of {} belongs to {} after {}", p0.identifier, c.w.a.name(p0.receiver.as_str()), c.w.a.name(p1.receiver.as_str()), step.op.kind()),
                        ));
                    }
                }
            }
        }
        // track former owners
        for ct in [c.w.a.pm.clone(), c.w.a.fm.clone(), c.w.a.em.clone(), c.w.a.fc.clone(), c.w.a.fc2.clone()] {
            if let Some(o) = c.w.ownership(&ct).owner {
                if o != c.w.a.owner {
                    self.former.insert(c.w.a.owner.to_string());
                }
                let _ = o;
            }
        }
        let is_ownership = step.op.kind().ends_with(".ownership") && out.ok();
        if matches!(step.op, Op::Audit) || is_ownership {
            self.audit(c, post)?;
        }
        Ok(())
    }
}
