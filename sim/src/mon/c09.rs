//! C09 — the emergency exit penalty is bounded, decays to zero and is fully accounted for.

use std::collections::{BTreeMap, BTreeSet};

use mantra_dex_std::farm_manager::{ExecuteMsg as FmMsg, Farm, Position, PositionAction};

use super::util::*;
use crate::exact::{weight_multiplier, Q};
use crate::sim::{viol, MResult, Monitor, Obs, SimCore};
use crate::trace::{Op, Step};
use crate::world::{TxOut, World};

#[derive(Default)]
pub struct C09 {
    snap: Option<crate::world::Snap>,
}

/// is the farm expired at `now`? None when the epoch manager cannot answer (the contract then
/// treats the farm as not expired)
pub fn farm_expired(w: &World, f: &Farm, now: u64) -> Option<bool> {
    let cfg = w.fm_config();
    let em = w.em_config(&cfg.epoch_manager_addr).epoch_config;
    if f.farm_asset.amount.u128().saturating_sub(f.claimed_amount.u128()) == 0 {
        // the contract still needs the epoch query to succeed
    }
    let id = f.preliminary_end_epoch.checked_add(1)?;
    let start = em.genesis_epoch.u64().checked_add(id.checked_mul(em.duration.u64())?)?;
    // Timestamp::from_seconds multiplies by 1e9 in u64
    start.checked_mul(1_000_000_000)?;
    let end_plus = start.checked_add(cfg.farm_expiration_time)?;
    end_plus.checked_mul(1_000_000_000)?;
    // the contract compares Timestamps (nanosecond resolution): a block time with a sub-second
    // part is already past a whole-second instant of the same second
    let past = end_plus < now || (end_plus == now && w.nanos > 0);
    Some(f.farm_asset.amount.u128().saturating_sub(f.claimed_amount.u128()) == 0 || past)
}

/// exact penalty fraction min(0.9, base x remaining/duration x multiplier)
fn exact_fraction(p: &Position, base: cosmwasm_std::Decimal, now: u64) -> Q {
    let a = p.lp_asset.amount.u128();
    let d = p.unlocking_duration;
    let remaining = match p.expiring_at {
        Some(e) => e.saturating_sub(now),
        None => d,
    };
    // weight multiplier as the contract defines it: max(amount, floor(amount x m(d))) / amount
    let m = weight_multiplier(d);
    let w = Q::int(a).mul(&m).floor_u128().max(a);
    let mu = Q::ratio(w, a.max(1));
    let f = Q::from_decimal(base).mul(&Q::ratio(remaining as u128, d.max(1) as u128)).mul(&mu);
    f.min(&Q::ratio(9, 10))
}

struct Payout {
    owner_gets: u128,
    sends: Vec<(String, u128)>,
}

fn payouts(c: &SimCore, out: &TxOut, denom: &str) -> Payout {
    let fm = c.w.a.fm.to_string();
    let mut sends = vec![];
    for call in out.report.calls.iter() {
        if call.kind == crate::seams::CallKind::BankSend {
            if let Some(rest) = call.sig.strip_prefix(&format!("{fm}->")) {
                if let Some((to, coins)) = rest.split_once(':') {
                    for cs in coins.split(',') {
                        if let Some((a, d)) = parse_coin(cs) {
                            if d == denom {
                                sends.push((to.to_string(), a));
                            }
                        }
                    }
                }
            }
        }
    }
    Payout { owner_gets: 0, sends }
}

impl Monitor for C09 {
    fn post(&mut self, c: &mut SimCore, step: &Step, pre: &Obs, out: &TxOut, post: &Obs) -> MResult {
        // an emergency withdrawal by the owner never fails inside the contract (arithmetic, own queries)
        if let Op::Fm { sender, msg: FmMsg::ManagePosition { action: PositionAction::Withdraw { identifier, emergency_unlock: Some(true) } }, .. } = &step.op {
            if let Some(p0) = pre.position(identifier) {
                if p0.receiver.as_str() == sender.as_str() {
                    if let Some(e) = super::util::internal_failure(out, step, pre) {
                        return Err(viol("C09.exit_blocked", format!("emergency withdrawal of position {} ({} {}) by its owner fails inside the contract: {e}", p0.identifier, p0.lp_asset.amount, p0.lp_asset.denom)));
                    }
                }
            }
        }
        if c.step_no % 7 == 2 {
            super::util::derived_exits(c, post, "C09", 6)?;
        }
        let (sender, identifier) = match &step.op {
            Op::Fm { sender, msg: FmMsg::ManagePosition { action: PositionAction::Withdraw { identifier, emergency_unlock: Some(true) } }, .. } => {
                (sender, identifier)
            }
            _ => return Ok(()),
        };
        if !out.ok() {
            return Ok(());
        }
        let p = match pre.position(identifier) {
            Some(p) => p.clone(),
            None => return Err(viol("C09.accepted_missing", format!("emergency withdrawal of unknown position {identifier} accepted"))),
        };
        let now = c.w.now();
        let a = p.lp_asset.amount.u128();
        let denom = p.lp_asset.denom.clone();
        let cfg = c.w.fm_config();
        let fc = cfg.fee_collector_addr.to_string();
        let fm = c.w.a.fm.to_string();
        let unlocked = p.expiring_at.map(|e| e <= now).unwrap_or(false);
        // every LP movement of this message, from the recorded bank calls (robust to role overlaps)
        let mut pay = payouts(c, out, &denom);
        // the last send to the owner of (a - penalty) is the owner's payout; penalty shares to the
        // owner (if the owner also owns a farm / is the fee collector) are separate sends
        let total_out: u128 = pay.sends.iter().map(|(_, x)| *x).sum();
        // FM balance moved by exactly what was sent (sends to itself cancel)
        let fm_delta = deltas(&pre.bal, &post.bal).get(&(fm.clone(), denom.clone())).copied().unwrap_or(0);
        let self_sends: u128 = pay.sends.iter().filter(|(t, _)| *t == fm).map(|(_, x)| *x).sum();
        if -fm_delta != (total_out - self_sends) as i128 {
            return Err(viol("C09.accounting", format!("farm manager LP balance moved {fm_delta} but sends total {total_out}")));
        }
        if total_out > a {
            return Err(viol("C09.overpaid", format!("owner payout plus penalty payouts {total_out} exceed the recorded amount {a}")));
        }
        // the position owner's payout (a - penalty) is the message the contract appends last; penalty
        // shares the owner may also receive (as farm owner / fee collector) come before it
        let owner_idx = pay.sends.iter().enumerate().filter(|(_, (t, _))| t == sender).map(|(i, _)| i).last();
        pay.owner_gets = owner_idx.map(|i| pay.sends[i].1).unwrap_or(0);
        let others: Vec<(String, u128)> = pay.sends.iter().enumerate().filter(|(i, _)| Some(*i) != owner_idx).map(|(_, x)| x.clone()).collect();
        let penalty = a - pay.owner_gets.min(a);
        if post.position(identifier).is_some() {
            return Err(viol("C09.position_kept", format!("position {identifier} still exists after the emergency withdrawal")));
        }
        // ---- zero once unlocked
        if unlocked {
            c.stats.bump("probe.c09.emergency_on_unlocked");
            if penalty != 0 || !others.is_empty() {
                return Err(viol("C09.penalty_after_unlock", format!("position unlocked at {:?} <= {now} but penalty {penalty} was charged", p.expiring_at)));
            }
            return Ok(());
        }
        // ---- hard bounds
        if penalty.checked_mul(10).map(|x| x > a.saturating_mul(9)).unwrap_or(true) || (penalty >= a && a > 0) {
            return Err(viol("C09.penalty_cap", format!("penalty {penalty} of position {a} exceeds 90% (or the whole position)")));
        }
        // ---- formula, banded by the contract's 18-digit fixed point
        let f = exact_fraction(&p, cfg.emergency_unlock_penalty, now);
        let want = Q::int(a).mul(&f).floor_u128();
        let band = a / 10u128.pow(12) + 2;
        if penalty > want + band || penalty + band < want {
            return Err(viol(
                "C09.penalty_formula",
                format!(
                    "penalty {penalty} but base {} x remaining/duration x multiplier (capped) of {a} = {want} (+-{band}); duration {} expiring {:?} now {now}",
                    cfg.emergency_unlock_penalty, p.unlocking_duration, p.expiring_at
                ),
            ));
        }
        if penalty == 0 {
            c.stats.bump("probe.c09.penalty_rounded_to_zero");
        }
        if f.cmp(&Q::ratio(9, 10)) == std::cmp::Ordering::Equal {
            c.stats.bump("probe.c09.cap_reached");
        }
        // ---- split: only fee collector and owners of currently active farms on this LP token
        let epoch = c.w.current_epoch();
        let mut active: BTreeSet<String> = BTreeSet::new();
        // a planted query failure makes the contract treat a farm's expiry as unknown (not expired)
        let mut uncertain = step.fault.is_some();
        for fmr in pre.farms.iter().filter(|f| f.lp_denom == denom) {
            let started = epoch.map(|e| fmr.start_epoch <= e).unwrap_or(false);
            match farm_expired(&c.w, fmr, now) {
                Some(exp) => {
                    if started && !exp {
                        active.insert(fmr.owner.to_string());
                    }
                }
                None => {
                    // the epoch manager cannot represent the farm's end: the contract treats the
                    // expiry as unknown = not expired, so a started farm counts as active
                    if started {
                        active.insert(fmr.owner.to_string());
                        c.stats.bump("probe.c09.active_farm_with_unrepresentable_end");
                    }
                }
            }
        }
        let on_lp = pre.farms.iter().filter(|f| f.lp_denom == denom).count();
        if on_lp > 10 {
            c.stats.bump("probe.c09.emergency_with_more_than_10_farms_on_lp");
        } else if on_lp > 4 {
            c.stats.bump("probe.c09.emergency_with_5_to_10_farms_on_lp");
        }
        let mut to_owners: BTreeMap<String, u128> = BTreeMap::new();
        let mut to_fc: u128 = 0;
        // a send to an address that is both fee collector and farm owner: attribute by amount later
        for (t, x) in others.iter() {
            if active.contains(t) && *t != fc {
                *to_owners.entry(t.clone()).or_insert(0) += x;
            } else if *t == fc && !active.contains(t) {
                to_fc += x;
            } else if *t == fc && active.contains(t) {
                // ambiguous overlap: accept either attribution, only check totals below
                uncertain = true;
                to_fc += x;
            } else if uncertain {
                continue;
            } else {
                return Err(viol(
                    "C09.penalty_recipient",
                    format!("{} received {x} of the penalty but is neither the fee collector nor the owner of an active farm on {denom}", c.w.a.name(t)),
                ));
            }
        }
        let paid_pen: u128 = others.iter().map(|(_, x)| *x).sum();
        if paid_pen > penalty {
            return Err(viol("C09.overpaid", format!("penalty payouts {paid_pen} exceed the penalty {penalty}")));
        }
        if !uncertain {
            if active.is_empty() {
                if to_fc != penalty {
                    return Err(viol("C09.no_farm_all_to_collector", format!("no active farm: fee collector got {to_fc} of penalty {penalty}")));
                }
                c.stats.bump("probe.c09.no_active_farm");
            } else {
                let shares: BTreeSet<u128> = to_owners.values().cloned().collect();
                let n = active.len() as u128;
                // the penalty is split with the owners of active farms: they may only go empty-handed
                // when any share of it would round to nothing
                if to_owners.is_empty() && penalty >= 4 * n {
                    return Err(viol("C09.owners_not_paid", format!("penalty {penalty} with {n} active farm owner(s) {:?} went entirely to the fee collector", active)));
                }
                if !to_owners.is_empty() && (to_owners.len() as u128 != n || shares.len() != 1) {
                    return Err(viol("C09.unequal_shares", format!("active farm owners {:?} received {:?}", active, to_owners)));
                }
                let dust = penalty - paid_pen;
                if dust >= n.max(1) {
                    return Err(viol("C09.penalty_leak", format!("penalty {penalty}: collector {to_fc} + owners {:?} leaves {dust} unaccounted (>= {n} owners)", to_owners)));
                }
                c.stats.bump(if to_owners.is_empty() { "probe.c09.share_rounded_to_zero" } else { "probe.c09.shared_with_farm_owners" });
                if n > 1 {
                    c.stats.bump("probe.c09.several_farm_owners");
                }
            }
        }
        // ---- decay: the same withdrawal later never costs more (forks)
        let remaining = p.expiring_at.map(|e| e.saturating_sub(now)).unwrap_or(p.unlocking_duration);
        let mut last = penalty;
        let mut offs: Vec<u64> = vec![1, remaining / 2, remaining.saturating_sub(1), remaining, remaining + 1];
        offs.sort();
        offs.dedup();
        let pre_snap_needed = c.w.snapshot(); // clean post-state to return to
        // rebuild the pre-state: replaying the step needs it, so the monitor re-executes from a
        // snapshot taken in `pre`
        if let Some(s) = self.snap.take() {
            for off in offs {
                if off == 0 {
                    continue;
                }
                c.w.restore(&s);
                c.w.advance(off);
                let o = c.exec_op(&step.op, None);
                c.stats.forks += 1;
                if !o.ok() {
                    continue;
                }
                let py = payouts(c, &o, &denom);
                let og = py.sends.iter().filter(|(t, _)| t == sender).map(|(_, x)| *x).last().unwrap_or(0);
                let pen = a - og.min(a);
                if pen > last {
                    c.w.restore(&pre_snap_needed);
                    return Err(viol("C09.penalty_grows", format!("penalty {last} at t but {pen} at t+{off}s (position {:?})", p)));
                }
                last = pen;
            }
            c.w.restore(&pre_snap_needed);
        }
        c.stats.sig(&[
            if p.open { "open" } else { "closed" },
            &active.len().min(3).to_string(),
            if penalty == 0 { "zero" } else { "pos" },
            &(a.max(1).ilog10() / 3).to_string(),
            &cfg.emergency_unlock_penalty.to_string(),
        ]);
        Ok(())
    }

    fn pre(&mut self, c: &mut SimCore, step: &Step, _pre: &Obs) -> MResult {
        if matches!(&step.op, Op::Fm { msg: FmMsg::ManagePosition { action: PositionAction::Withdraw { emergency_unlock: Some(true), .. } }, .. }) {
            self.snap = Some(c.w.snapshot());
        } else {
            self.snap = None;
        }
        Ok(())
    }
}

