//! Helpers shared by monitors.

use std::collections::BTreeMap;

use cosmwasm_std::Decimal;
use mantra_dex_std::pool_manager::PoolInfoResponse;
use num_bigint::BigUint;

use crate::sim::Obs;
use crate::world::Balances;

/// "123uom" -> (123, "uom")
pub fn parse_coin(s: &str) -> Option<(u128, String)> {
    let s = s.trim();
    let idx = s.find(|c: char| !c.is_ascii_digit())?;
    if idx == 0 {
        return None;
    }
    let a: u128 = s[..idx].parse().ok()?;
    Some((a, s[idx..].to_string()))
}

/// floor(amount * share) with share an 18-digit decimal
pub fn fee_floor(amount: u128, share: Decimal) -> u128 {
    let r = BigUint::from(amount) * BigUint::from(share.atomics().u128()) / BigUint::from(10u128.pow(18));
    u128::try_from(r).unwrap_or(u128::MAX)
}

/// signed delta table post - pre over all accounts and denoms (zero entries omitted)
pub fn deltas(pre: &Balances, post: &Balances) -> BTreeMap<(String, String), i128> {
    let mut out = BTreeMap::new();
    for (a, m) in post.iter() {
        for (d, v) in m.iter() {
            let p = pre.get(a).and_then(|x| x.get(d)).copied().unwrap_or(0);
            if *v != p {
                out.insert((a.clone(), d.clone()), *v as i128 - p as i128);
            }
        }
    }
    for (a, m) in pre.iter() {
        for (d, v) in m.iter() {
            let q = post.get(a).and_then(|x| x.get(d)).copied().unwrap_or(0);
            if q == 0 && *v != 0 {
                out.insert((a.clone(), d.clone()), -(*v as i128));
            }
        }
    }
    out
}

pub fn add_delta(m: &mut BTreeMap<(String, String), i128>, addr: &str, denom: &str, v: i128) {
    if v == 0 {
        return;
    }
    let k = (addr.to_string(), denom.to_string());
    let e = m.entry(k.clone()).or_insert(0);
    *e += v;
    if *e == 0 {
        m.remove(&k);
    }
}

pub fn reserve(p: &PoolInfoResponse, denom: &str) -> u128 {
    p.pool_info.assets.iter().find(|a| a.denom == denom).map(|a| a.amount.u128()).unwrap_or(0)
}

/// pools whose PoolInfo (anything) differs between two observations
pub fn changed_pools(pre: &Obs, post: &Obs) -> Vec<String> {
    let mut out = vec![];
    for p in post.pools.iter() {
        match pre.pool(&p.pool_info.pool_identifier) {
            Some(q) if q.pool_info == p.pool_info => {}
            _ => out.push(p.pool_info.pool_identifier.clone()),
        }
    }
    for p in pre.pools.iter() {
        if post.pool(&p.pool_info.pool_identifier).is_none() {
            out.push(p.pool_info.pool_identifier.clone());
        }
    }
    out
}

pub fn valid_addr(s: &str) -> bool {
    // MockApiBech32("mantra"): bech32 with the mantra prefix; cheap syntactic test is enough for
    // the generator's "not-an-address" strings, the exact answer comes from the API itself
    cw_multi_test::MockApiBech32::new("mantra").addr_validate_str(s)
}

pub trait AddrValidate {
    fn addr_validate_str(&self, s: &str) -> bool;
}
impl AddrValidate for cw_multi_test::MockApiBech32 {
    fn addr_validate_str(&self, s: &str) -> bool {
        use cosmwasm_std::Api;
        self.addr_validate(s).is_ok()
    }
}

pub fn fmt_deltas(a: &crate::world::Addrs, m: &BTreeMap<(String, String), i128>) -> String {
    m.iter().map(|((ad, d), v)| format!("{}:{}:{:+}", a.name(ad), d, v)).collect::<Vec<_>>().join(" ")
}
