//! Helpers shared by monitors.

use std::collections::BTreeMap;

use cosmwasm_std::Decimal;
use mantra_dex_std::pool_manager::PoolInfoResponse;
use num_bigint::BigUint;

use crate::sim::Obs;
use crate::world::Balances;

/// "123uom" -> (123, "uom")
pub fn parse_coin(s: &str) -> Option<(u128, String)> {
    let s = s.trim();
    let idx = s.find(|c: char| !c.is_ascii_digit())?;
    if idx == 0 {
        return None;
    }
    let a: u128 = s[..idx].parse().ok()?;
    Some((a, s[idx..].to_string()))
}

/// floor(amount * share) with share an 18-digit decimal
pub fn fee_floor(amount: u128, share: Decimal) -> u128 {
    let r = BigUint::from(amount) * BigUint::from(share.atomics().u128()) / BigUint::from(10u128.pow(18));
    u128::try_from(r).unwrap_or(u128::MAX)
}

/// u128 -> i128, saturating
pub fn si(a: u128) -> i128 {
    i128::try_from(a).unwrap_or(i128::MAX)
}

/// a - b as a signed number, saturating at the i128 limits (LP supplies minted at the 128-bit
/// ceiling exceed i128::MAX)
pub fn sdiff(a: u128, b: u128) -> i128 {
    if a >= b {
        i128::try_from(a - b).unwrap_or(i128::MAX)
    } else {
        i128::try_from(b - a).map(|x| -x).unwrap_or(i128::MIN + 1)
    }
}

/// signed delta table post - pre over all accounts and denoms (zero entries omitted)
pub fn deltas(pre: &Balances, post: &Balances) -> BTreeMap<(String, String), i128> {
    let mut out = BTreeMap::new();
    for (a, m) in post.iter() {
        for (d, v) in m.iter() {
            let p = pre.get(a).and_then(|x| x.get(d)).copied().unwrap_or(0);
            if *v != p {
                out.insert((a.clone(), d.clone()), sdiff(*v, p));
            }
        }
    }
    for (a, m) in pre.iter() {
        for (d, v) in m.iter() {
            let q = post.get(a).and_then(|x| x.get(d)).copied().unwrap_or(0);
            if q == 0 && *v != 0 {
                out.insert((a.clone(), d.clone()), sdiff(0, *v));
            }
        }
    }
    out
}

pub fn add_delta(m: &mut BTreeMap<(String, String), i128>, addr: &str, denom: &str, v: i128) {
    if v == 0 {
        return;
    }
    let k = (addr.to_string(), denom.to_string());
    let e = m.entry(k.clone()).or_insert(0);
    *e = e.saturating_add(v);
    if *e == 0 {
        m.remove(&k);
    }
}

pub fn reserve(p: &PoolInfoResponse, denom: &str) -> u128 {
    p.pool_info.assets.iter().find(|a| a.denom == denom).map(|a| a.amount.u128()).unwrap_or(0)
}

/// pools whose PoolInfo (anything) differs between two observations
pub fn changed_pools(pre: &Obs, post: &Obs) -> Vec<String> {
    let mut out = vec![];
    for p in post.pools.iter() {
        match pre.pool(&p.pool_info.pool_identifier) {
            Some(q) if q.pool_info == p.pool_info => {}
            _ => out.push(p.pool_info.pool_identifier.clone()),
        }
    }
    for p in pre.pools.iter() {
        if post.pool(&p.pool_info.pool_identifier).is_none() {
            out.push(p.pool_info.pool_identifier.clone());
        }
    }
    out
}

pub fn valid_addr(s: &str) -> bool {
    // MockApiBech32("mantra"): bech32 with the mantra prefix; cheap syntactic test is enough for
    // the generator's "not-an-address" strings, the exact answer comes from the API itself
    cw_multi_test::MockApiBech32::new("mantra").addr_validate_str(s)
}

pub trait AddrValidate {
    fn addr_validate_str(&self, s: &str) -> bool;
}
impl AddrValidate for cw_multi_test::MockApiBech32 {
    fn addr_validate_str(&self, s: &str) -> bool {
        use cosmwasm_std::Api;
        self.addr_validate(s).is_ok()
    }
}

pub fn fmt_deltas(a: &crate::world::Addrs, m: &BTreeMap<(String, String), i128>) -> String {
    m.iter().map(|((ad, d), v)| format!("{}:{}:{:+}", a.name(ad), d, v)).collect::<Vec<_>>().join(" ")
}


/// A message that failed for a reason inside the contract's own arithmetic or one of its own
/// queries - not a validation of the request, not an injected fault, not a frozen transfer.
/// Returns the error text. ("Overflow: Cannot Sub", a querier error, a VM trap, a division by zero.)
pub fn internal_failure(out: &crate::world::TxOut, step: &crate::trace::Step, pre: &crate::sim::Obs) -> Option<String> {
    if out.ok() || step.fault.is_some() || out.report.fault_fired > 0 || out.report.frozen_fired > 0 {
        return None;
    }
    // funds the sender does not have fail in the bank with the same "Cannot Sub" text
    if let Some(s) = step.op.sender() {
        if step.op.funds().iter().any(|f| crate::world::bal(&pre.bal, s, &f.denom) < f.amount.u128()) {
            return None;
        }
    }
    let t = out.err_text();
    // before the epoch manager's genesis nothing epoch-dependent works: documented, not internal
    if t.contains("genesis epoch has not started") {
        return None;
    }
    let hit = ["Overflow", "overflow", "Querier contract error", "panicked", "ivide by zero", "Cannot Sub", "Cannot Add", "Cannot Mul"].iter().any(|k| t.contains(k));
    if hit {
        Some(t.rsplit(": ").take(3).collect::<Vec<_>>().into_iter().rev().collect::<Vec<_>>().join(": "))
    } else {
        None
    }
}

/// Every position's owner tries to leave on a fork of the current state: a full close of an open
/// position and an emergency withdrawal of any position. A refusal caused by the contract's own
/// arithmetic or queries means the position cannot be withdrawn "at any time".
pub fn derived_exits(c: &mut crate::sim::SimCore, obs: &crate::sim::Obs, tag: &str, cap: usize) -> crate::sim::MResult {
    use mantra_dex_std::farm_manager::{ExecuteMsg as FmMsg, PositionAction};
    let positions: Vec<mantra_dex_std::farm_manager::Position> = obs.positions.iter().take(cap).cloned().collect();
    for p in positions.iter() {
        let mut tries: Vec<(&str, PositionAction)> = vec![("emergency withdrawal", PositionAction::Withdraw { identifier: p.identifier.clone(), emergency_unlock: Some(true) })];
        if p.open {
            tries.push(("full close", PositionAction::Close { identifier: p.identifier.clone(), lp_asset: None }));
        }
        for (what, action) in tries {
            let snap = c.fork();
            let op = crate::trace::Op::Fm { sender: p.receiver.to_string(), msg: FmMsg::ManagePosition { action }, funds: vec![] };
            let o = c.exec_op(&op, None);
            c.w.restore(&snap);
            let step = crate::trace::Step { dt: 0, op, fault: None };
            c.stats.bump(if o.ok() { "probe.exits.derived_exit_accepted" } else { "probe.exits.derived_exit_refused" });
            if let Some(e) = internal_failure(&o, &step, obs) {
                return Err(crate::sim::viol(
                    &format!("{tag}.exit_blocked"),
                    format!("{} of position {} ({} {}, open {}) by its owner {} fails inside the contract: {e}", what, p.identifier, p.lp_asset.amount, p.lp_asset.denom, p.open, c.w.a.name(p.receiver.as_str())),
                ));
            }
        }
    }
    Ok(())
}
