//! C13 — price protections are enforced and failed trades change nothing.

use std::str::FromStr;

use cosmwasm_std::{coin, Addr, Coin, Decimal, Uint128};
use mantra_dex_std::pool_manager::{ExecuteMsg as PmMsg, PoolInfo, PoolType, QueryMsg, SimulationResponse};

use crate::exact::{normalise, Q};
use crate::sim::{coins_to_map, viol, MResult, Monitor, Obs, SimCore};
use crate::trace::{Op, Step};
use crate::world::{bal, Snap, TxOut};

#[derive(Default)]
pub struct C13 {
    snap: Option<Snap>,
}

fn dec(s: &str) -> Decimal {
    Decimal::from_str(s).unwrap()
}

fn eff_tol(s: &Option<Decimal>) -> Q {
    let d = s.unwrap_or(dec("0.01")).min(dec("0.5"));
    Q::from_decimal(d)
}

fn reserve(p: &PoolInfo, d: &str) -> u128 {
    p.assets.iter().find(|a| a.denom == d).map(|a| a.amount.u128()).unwrap_or(0)
}

impl C13 {
    fn try_swap(c: &mut SimCore, snap: &Snap, sender: &str, pool: &str, offer: &Coin, ask: &str, belief: Option<Decimal>, tol: Option<Decimal>) -> (bool, u128) {
        c.w.restore(snap);
        c.stats.forks += 1;
        let o = c.exec_op(
            &Op::Pm {
                sender: sender.to_string(),
                msg: PmMsg::Swap { ask_asset_denom: ask.to_string(), belief_price: belief, max_slippage: tol, receiver: None, pool_identifier: pool.to_string() },
                funds: vec![offer.clone()],
            },
            None,
        );
        let r = o.attr("return_amount").and_then(|v| v.parse().ok()).unwrap_or(0);
        (o.ok(), r)
    }

    fn swap_checks(&mut self, c: &mut SimCore, pre: &Obs, sender: &str, pool_id: &str, offer: &Coin, ask: &str, belief: &Option<Decimal>, tol: &Option<Decimal>) -> MResult {
        self.swap_checks_inner(c, pre, sender, pool_id, offer, ask, belief, tol, false)
    }

    /// `derived`: an offer the monitor made up from the observed state; the sender is funded for it
    /// on the fork
    #[allow(clippy::too_many_arguments)]
    fn swap_checks_inner(&mut self, c: &mut SimCore, pre: &Obs, sender: &str, pool_id: &str, offer: &Coin, ask: &str, belief: &Option<Decimal>, tol: &Option<Decimal>, derived: bool) -> MResult {
        let p = match pre.pool(pool_id) {
            Some(p) => p.pool_info.clone(),
            None => return Ok(()),
        };
        let outer = c.w.snapshot();
        if derived {
            c.w.faucet(&cosmwasm_std::Addr::unchecked(sender), vec![offer.clone()]);
        }
        let well_formed = p.status.swaps_enabled
            && p.asset_denoms.contains(&offer.denom)
            && p.asset_denoms.iter().any(|d| d == ask)
            && offer.denom != ask
            && p.assets.iter().all(|a| !a.amount.is_zero())
            && (derived || bal(&pre.bal, sender, &offer.denom) >= offer.amount.u128())
            && !offer.amount.is_zero();
        if !well_formed {
            c.w.restore(&outer);
            return Ok(());
        }
        let q: Result<SimulationResponse, _> = c.w.app.wrap().query_wasm_smart(
            c.w.a.pm.to_string(),
            &QueryMsg::Simulation { offer_asset: offer.clone(), ask_asset_denom: ask.to_string(), pool_identifier: pool_id.to_string() },
        );
        let q = match q {
            Ok(q) => q,
            Err(_) => {
                c.w.restore(&outer);
                return Ok(());
            }
        };
        let net = q.return_amount.u128();
        let snap = c.w.snapshot();
        let s = eff_tol(tol);
        let one_minus_s = Q::int(1).sub(&s);
        let res: MResult = (|| {
            // ---------------- belief price: fixed numeric predicate
            if let Some(bp) = belief {
                if bp.is_zero() {
                    let (ok, _) = Self::try_swap(c, &snap, sender, pool_id, offer, ask, *belief, *tol);
                    if ok {
                        return Err(viol("C13.zero_belief_price_accepted", "swap with belief price 0 executed".into()));
                    }
                    return Ok(());
                }
                let e = Q::int(offer.amount.u128()).div(&Q::from_decimal(*bp));
                let thr = e.mul(&one_minus_s);
                // the contract inverts the belief price in 18-digit fixed point: the expected return
                // carries an absolute error of up to offer x 10^-18 (and is floored)
                // ... and the slippage ratio itself is an 18-digit decimal: another expected x 10^-18
                let delta = Q::int(2)
                    .add(&Q::int(offer.amount.u128()).mul(&Q::ratio(2, 10u128.pow(18))))
                    .add(&e.mul(&Q::ratio(2, 10u128.pow(18))));
                let (ok, _) = Self::try_swap(c, &snap, sender, pool_id, offer, ask, *belief, *tol);
                let netq = Q::int(net);
                if ok && netq.le(&thr.sub(&delta)) {
                    return Err(viol(
                        "C13.belief_price_not_enforced",
                        format!("offer {offer}, belief price {bp}, tolerance {:?}: return {net} <= offer/belief x (1 - s) = {} but the swap executed", tol, thr.to_f64()),
                    ));
                }
                if !ok && !netq.lt(&thr.add(&delta)) {
                    // would it execute at all without the belief price?
                    let (ctrl, _) = Self::try_swap(c, &snap, sender, pool_id, offer, ask, None, Some(dec("0.5")));
                    if ctrl {
                        return Err(viol(
                            "C13.belief_price_over_strict",
                            format!("offer {offer}, belief price {bp}, tolerance {:?}: return {net} >= offer/belief x (1 - s) = {} but the swap was refused", tol, thr.to_f64()),
                        ));
                    }
                }
                c.stats.bump("probe.c13.belief_price_checked");
                return Ok(());
            }
            // ---------------- metamorphic: tolerance monotone; omitted == 1%; above 50% == 50%
            let variants: Vec<Option<Decimal>> = vec![None, Some(dec("0.01")), *tol, Some(dec("0.25")), Some(dec("0.5")), Some(dec("0.7")), Some(dec("1"))];
            let mut outcome: Vec<(Q, bool)> = vec![];
            let mut oks = vec![];
            for v in variants.iter() {
                let (ok, _) = Self::try_swap(c, &snap, sender, pool_id, offer, ask, None, *v);
                oks.push(ok);
                outcome.push((eff_tol(v), ok));
            }
            if oks[0] != oks[1] {
                return Err(viol("C13.default_tolerance", format!("offer {offer} on {pool_id}: omitted tolerance {} but 1% {}", oks[0], oks[1])));
            }
            if oks[4] != oks[5] || oks[4] != oks[6] {
                return Err(viol("C13.tolerance_cap", format!("offer {offer} on {pool_id}: 50% -> {}, 70% -> {}, 100% -> {}", oks[4], oks[5], oks[6])));
            }
            outcome.sort_by(|a, b| a.0.cmp(&b.0));
            let mut seen_ok = false;
            for (t, ok) in outcome.iter() {
                if *ok {
                    seen_ok = true;
                } else if seen_ok {
                    return Err(viol("C13.tolerance_not_monotone", format!("offer {offer} on {pool_id}: accepted under a smaller tolerance but rejected under {}", t.to_f64())));
                }
            }
            c.stats.bump("probe.c13.tolerance_metamorphic");
            // ---------------- banded price-impact predicate
            let (ok_actual, _) = Self::try_swap(c, &snap, sender, pool_id, offer, ask, None, *tol);
            match p.pool_type {
                PoolType::ConstantProduct => {
                    let ideal = Q::int(offer.amount.u128()).mul(&Q::ratio(reserve(&p, ask), reserve(&p, &offer.denom).max(1)));
                    if ideal.floor_u128() == 0 {
                        return Ok(());
                    }
                    let loss = ideal.sub(&Q::int(net)).div(&ideal);
                    let eps = Q::int(2).div(&ideal).add(&Q::ratio(1, 10u128.pow(15)));
                    if ok_actual && !loss.lt(&s.add(&eps)) {
                        return Err(viol("C13.slippage_not_enforced", format!("constant product {pool_id}: offer {offer}, loss {:.6} >= tolerance {:.6} but executed", loss.to_f64(), s.to_f64())));
                    }
                    if !ok_actual && loss.le(&s.sub(&eps)) && !Q::int(net).le(&Q::zero()) {
                        return Err(viol("C13.slippage_over_strict", format!("constant product {pool_id}: offer {offer}, loss {:.6} <= tolerance {:.6} but refused", loss.to_f64(), s.to_f64())));
                    }
                    c.stats.bump("probe.c13.cp_band_checked");
                    let d = s.sub(&loss);
                    if d.to_f64().abs() < 0.002 {
                        c.stats.bump("probe.c13.cp_near_boundary");
                    }
                }
                PoolType::StableSwap { .. } => {
                    // only near the peg, with a wide band: enough to expose unit mix-ups
                    let rs: Vec<u128> = p.asset_denoms.iter().map(|d| reserve(&p, d)).collect();
                    if let Some((xs, mx)) = normalise(&rs, &p.asset_decimals) {
                        let mxv = xs.iter().max().unwrap();
                        let mnv = xs.iter().min().unwrap();
                        let near_peg = (mxv - mnv) * 1000u32 <= *mxv;
                        let i = p.asset_denoms.iter().position(|d| *d == offer.denom).unwrap();
                        let j = p.asset_denoms.iter().position(|d| d == ask).unwrap();
                        let off_n = Q::int(offer.amount.u128()).mul(&Q::int(10u128.pow(mx - p.asset_decimals[i] as u32)));
                        let net_n = Q::int(net).mul(&Q::int(10u128.pow(mx - p.asset_decimals[j] as u32)));
                        // small relative to the pool so that the curve's own impact is negligible
                        let small = Q::int(offer.amount.u128()).mul(&Q::int(10u128.pow(mx - p.asset_decimals[i] as u32))).mul(&Q::int(100)).le(&Q::new(num_bigint::BigInt::from(mnv.clone()), 1.into()));
                        // amounts large enough that one smallest unit of either side is below 0.01%
                        // executed although the loss against the (pre-trade, near-peg) price is far beyond
                        // the tolerance: holds for offers of any size - a large offer only loses more
                        // (reserves within 2% of each other: the pre-trade price is within a few percent
                        // of the peg, which the constant term of the band absorbs)
                        let roughly_pegged = (mxv - mnv) * 50u32 <= *mxv;
                        if roughly_pegged && !small && off_n.floor_u128() > 10_000 && net >= 10_000 && offer.amount.u128() >= 10_000 {
                            let loss = off_n.sub(&net_n).div(&off_n).max(&Q::zero());
                            c.stats.bump(if p.assets.len() > 2 { "probe.c13.stable_large_offer_checked_3plus_assets" } else { "probe.c13.stable_large_offer_checked" });
                            if ok_actual && loss.cmp(&s.mul(&Q::int(4)).add(&Q::ratio(3, 100))).is_gt() {
                                let mut v = viol("C13.slippage_not_enforced", format!("stableswap {pool_id} decimals {:?}: large offer {offer}, loss vs peg {:.6} > 4 x tolerance {:.6} but executed", p.asset_decimals, loss.to_f64(), s.to_f64()));
                                v.finding = Some("S3-stableswap-slippage-units".into());
                                v.truncate = false;
                                return Err(v);
                            }
                        }
                        if near_peg && small && off_n.floor_u128() > 10_000 && net >= 10_000 && offer.amount.u128() >= 10_000 {
                            let loss = off_n.sub(&net_n).div(&off_n).max(&Q::zero());
                            if ok_actual && loss.cmp(&s.mul(&Q::int(4)).add(&Q::ratio(1, 1000))).is_gt() {
                                let mut v = viol("C13.slippage_not_enforced", format!("stableswap {pool_id} decimals {:?}: offer {offer}, loss vs peg {:.6} > 4 x tolerance {:.6} but executed", p.asset_decimals, loss.to_f64(), s.to_f64()));
                                v.finding = Some("S3-stableswap-slippage-units".into());
                                v.truncate = false;
                                return Err(v);
                            }
                            if !ok_actual && loss.mul(&Q::int(4)).add(&Q::ratio(1, 1000)).lt(&s) {
                                let mut v = viol("C13.slippage_over_strict", format!("stableswap {pool_id} decimals {:?}: offer {offer}, loss vs peg {:.6} < tolerance/4 ({:.6}) but refused", p.asset_decimals, loss.to_f64(), s.to_f64()));
                                v.finding = Some("S3-stableswap-slippage-units".into());
                                v.truncate = false;
                                return Err(v);
                            }
                            c.stats.bump("probe.c13.stable_band_checked");
                        }
                    }
                }
            }
            Ok(())
        })();
        c.w.restore(&outer);
        res
    }

    /// `lock`: the same predicates with the minted LP locked in the farm manager (the tolerance applies
    /// whatever happens to the LP afterwards)
    fn deposit_checks(&mut self, c: &mut SimCore, pre: &Obs, sender: &str, pool_id: &str, tol: &Option<Decimal>, funds: &[Coin], lock: Option<u64>) -> MResult {
        let p = match pre.pool(pool_id) {
            Some(p) => p.pool_info.clone(),
            None => return Ok(()),
        };
        if !p.status.deposits_enabled || p.assets.iter().any(|a| a.amount.is_zero()) {
            return Ok(());
        }
        let snap = c.w.snapshot();
        let s = Addr::unchecked(sender);
        let mut run = |c: &mut SimCore, funds: &[Coin], t: Option<Decimal>| -> bool {
            c.w.restore(&snap);
            c.stats.forks += 1;
            for f in funds {
                c.w.faucet(&s, vec![f.clone()]);
            }
            let o = c.exec_op(
                &Op::Pm {
                    sender: sender.to_string(),
                    msg: PmMsg::ProvideLiquidity {
                        liquidity_max_slippage: t,
                        swap_max_slippage: Some(dec("0.5")),
                        receiver: None,
                        pool_identifier: pool_id.to_string(),
                        unlocking_duration: lock,
                        lock_position_identifier: None,
                    },
                    funds: funds.to_vec(),
                },
                None,
            );
            o.ok()
        };
        let res: MResult = (|| {
            // single-asset deposit into a constant-product pool: the deposit leg (half + proceeds) is
            // subject to the caller's LIQUIDITY tolerance against the pool ratio after the inner swap
            let m = coins_to_map(funds);
            if m.len() == 1 && p.pool_type == PoolType::ConstantProduct && p.assets.len() == 2 {
                if let Some(t) = tol {
                    let (od, oa) = m.iter().next().unwrap();
                    let ask = p.asset_denoms.iter().find(|d| *d != od).cloned().unwrap_or_default();
                    let half = *oa / 2;
                    let q: Result<SimulationResponse, _> = c.w.app.wrap().query_wasm_smart(
                        c.w.a.pm.to_string(),
                        &QueryMsg::Simulation { offer_asset: coin(half, od.clone()), ask_asset_denom: ask.clone(), pool_identifier: pool_id.to_string() },
                    );
                    if let (Ok(q), true, true) = (q, *t <= Decimal::one(), p.asset_denoms.contains(od)) {
                        let proceeds = q.return_amount.u128();
                        let out_fees = q.protocol_fee_amount.u128() + q.burn_fee_amount.u128();
                        let r_off = reserve(&p, od) + half;
                        let r_ask = reserve(&p, &ask).saturating_sub(proceeds + out_fees);
                        if half > 0 && proceeds > 0 && r_off > 0 && r_ask > 0 {
                            let omt = Q::int(1).sub(&Q::from_decimal(*t));
                            let dev_a = Q::ratio(half, proceeds).mul(&omt);
                            let dev_b = Q::ratio(proceeds, half).mul(&omt);
                            let pr_a = Q::ratio(r_off, r_ask);
                            let pr_b = Q::ratio(r_ask, r_off);
                            let eps = Q::ratio(1, 10u128.pow(15));
                            let clearly_out = dev_a.cmp(&pr_a.mul(&Q::int(1).add(&eps)).add(&eps)).is_gt() || dev_b.cmp(&pr_b.mul(&Q::int(1).add(&eps)).add(&eps)).is_gt();
                            let clearly_in = dev_a.mul(&Q::int(1).add(&eps)).add(&eps).le(&pr_a) && dev_b.mul(&Q::int(1).add(&eps)).add(&eps).le(&pr_b);
                            let single = vec![coin(*oa, od.clone())];
                            let ok = run(c, &single, Some(*t));
                            let ctrl = run(c, &single, None);
                            c.stats.bump("probe.c13.single_asset_deposit_ratio_checked");
                            if ok && clearly_out {
                                return Err(viol(
                                    "C13.deposit_ratio_not_enforced",
                                    format!("single-asset deposit of {oa}{od}: second leg ({half}, {proceeds}) vs reserves ({r_off}, {r_ask}) deviates more than the liquidity tolerance {t} but was accepted"),
                                ));
                            }
                            if !ok && ctrl && clearly_in {
                                return Err(viol(
                                    "C13.deposit_ratio_over_strict",
                                    format!("single-asset deposit of {oa}{od}: second leg ({half}, {proceeds}) vs reserves ({r_off}, {r_ask}) is within the liquidity tolerance {t} but was refused"),
                                ));
                            }
                        }
                    }
                }
            }
            // monotone in the tolerance for the actual deposit shape
            if m.len() >= 2 {
                let mut f: Vec<Coin> = m.iter().map(|(d, a)| coin(*a, d.clone())).collect();
                f.sort_by(|a, b| a.denom.cmp(&b.denom));
                let mut seen = false;
                let mut ts = vec![dec("0"), dec("0.001"), dec("0.05"), dec("0.3"), dec("1")];
                if let Some(t) = tol {
                    if *t <= Decimal::one() {
                        ts.push(*t);
                    }
                }
                ts.sort();
                for t in ts {
                    let ok = run(c, &f, Some(t));
                    if ok {
                        seen = true;
                    } else if seen {
                        return Err(viol("C13.tolerance_not_monotone", format!("deposit {:?} into {pool_id}: accepted under a smaller tolerance but refused under {t}", f)));
                    }
                }
                // constant product: the ratio test itself
                if p.pool_type == PoolType::ConstantProduct && f.len() == 2 {
                    if let Some(t) = tol {
                        if *t <= Decimal::one() {
                            let (d0, d1) = (f[0].amount.u128(), f[1].amount.u128());
                            let (r0, r1) = (reserve(&p, &f[0].denom), reserve(&p, &f[1].denom));
                            if d0 > 0 && d1 > 0 && r0 > 0 && r1 > 0 {
                                let omt = Q::int(1).sub(&Q::from_decimal(*t));
                                let dev_a = Q::ratio(d0, d1).mul(&omt);
                                let dev_b = Q::ratio(d1, d0).mul(&omt);
                                let pr_a = Q::ratio(r0, r1);
                                let pr_b = Q::ratio(r1, r0);
                                let eps = Q::ratio(1, 10u128.pow(15));
                                let clearly_out = dev_a.cmp(&pr_a.mul(&Q::int(1).add(&eps)).add(&eps)).is_gt() || dev_b.cmp(&pr_b.mul(&Q::int(1).add(&eps)).add(&eps)).is_gt();
                                let clearly_in = dev_a.mul(&Q::int(1).add(&eps)).add(&eps).le(&pr_a) && dev_b.mul(&Q::int(1).add(&eps)).add(&eps).le(&pr_b);
                                let ok = run(c, &f, Some(*t));
                                let ctrl = run(c, &f, None);
                                if ok && clearly_out {
                                    return Err(viol("C13.deposit_ratio_not_enforced", format!("deposit {:?} vs reserves ({r0},{r1}) deviates more than tolerance {t} but was accepted", f)));
                                }
                                if !ok && ctrl && clearly_in {
                                    return Err(viol("C13.deposit_ratio_over_strict", format!("deposit {:?} vs reserves ({r0},{r1}) is within tolerance {t} but was refused", f)));
                                }
                                c.stats.bump("probe.c13.cp_deposit_ratio_checked");
                            }
                        }
                    }
                }
            }
            // a deposit in exact pool proportion (the reserves themselves) is accepted under any valid tolerance
            let mut prop: Vec<Coin> = p.assets.iter().map(|a| coin(a.amount.u128(), a.denom.clone())).collect();
            prop.sort_by(|a, b| a.denom.cmp(&b.denom));
            if p.assets.iter().all(|a| a.amount.u128() < (1u128 << 100)) {
                let base = run(c, &prop, None);
                if base {
                    for t in ["0", "0.01", "0.5", "1"] {
                        if !run(c, &prop, Some(dec(t))) {
                            let mut v = viol(
                                "C13.proportional_deposit_refused",
                                format!("{} pool {pool_id}: a deposit equal to the reserves {:?} is accepted without a tolerance but refused with tolerance {t}", p.pool_type.get_label(), p.assets),
                            );
                            if matches!(p.pool_type, PoolType::StableSwap { .. }) {
                                v.finding = Some("S3b-stableswap-deposit-tolerance-unusable".into());
                                v.truncate = false;
                            }
                            return Err(v);
                        }
                    }
                    c.stats.bump("probe.c13.proportional_deposit_checked");
                }
                if run(c, &prop, Some(dec("1.000000000000000001"))) || run(c, &prop, Some(dec("2"))) {
                    return Err(viol("C13.deposit_tolerance_above_one", format!("pool {pool_id}: deposit with a tolerance above 1 accepted")));
                }
            }
            Ok(())
        })();
        c.w.restore(&snap);
        res
    }
}

impl Monitor for C13 {
    fn pre(&mut self, c: &mut SimCore, step: &Step, pre: &Obs) -> MResult {
        self.snap = Some(c.w.snapshot());
        let (sender, msg, funds) = match &step.op {
            Op::Pm { sender, msg, funds } => (sender, msg, funds),
            _ => return Ok(()),
        };
        if step.fault.is_some() {
            return Ok(());
        }
        match msg {
            PmMsg::Swap { ask_asset_denom, belief_price, max_slippage, pool_identifier, .. } => {
                let m = coins_to_map(funds);
                if m.len() == 1 {
                    let (d, a) = m.iter().next().unwrap();
                    self.swap_checks(c, pre, sender, pool_identifier, &coin(*a, d.clone()), ask_asset_denom, belief_price, max_slippage)?;
                    // derived: on stableswap pools, a sale of 90% of the offered asset's reserve
                    // against every other asset, under the step's tolerance (large offers are where
                    // a mis-measured spread shows)
                    if let Some(p) = pre.pool(pool_identifier) {
                        if matches!(p.pool_info.pool_type, PoolType::StableSwap { .. }) && p.pool_info.asset_denoms.contains(d) {
                            let big = reserve(&p.pool_info, d) / 10 * 9;
                            let asks: Vec<String> = p.pool_info.asset_denoms.iter().filter(|x| *x != d).cloned().collect();
                            for ask in asks {
                                if big > 0 {
                                    self.swap_checks_inner(c, pre, sender, pool_identifier, &coin(big, d.clone()), &ask, &None, max_slippage, true)?;
                                }
                            }
                        }
                    }
                }
            }
            PmMsg::ExecuteSwapOperations { operations, minimum_receive: None, receiver, .. } if !operations.is_empty() => {
                // the 50% cap holds on routes as on direct swaps: 50%, 70% and 100% decide alike, and
                // a larger tolerance never refuses what a smaller one accepts
                let snap = c.w.snapshot();
                let mut oks = vec![];
                for t in ["0.01", "0.5", "0.7", "1"] {
                    c.w.restore(&snap);
                    c.stats.forks += 1;
                    let o = c.exec_op(
                        &Op::Pm {
                            sender: sender.clone(),
                            msg: PmMsg::ExecuteSwapOperations { operations: operations.clone(), minimum_receive: None, receiver: receiver.clone(), max_slippage: Some(dec(t)) },
                            funds: funds.clone(),
                        },
                        None,
                    );
                    oks.push(o.ok());
                }
                c.w.restore(&snap);
                c.stats.bump("probe.c13.route_tolerance_metamorphic");
                if oks[1] != oks[2] || oks[1] != oks[3] {
                    return Err(viol("C13.tolerance_cap", format!("route of {} hops offering {:?}: 50% -> {}, 70% -> {}, 100% -> {}", operations.len(), funds, oks[1], oks[2], oks[3])));
                }
                if oks[0] && !oks[1] {
                    return Err(viol("C13.tolerance_not_monotone", format!("route of {} hops offering {:?}: accepted under 1% but refused under 50%", operations.len(), funds)));
                }
            }
            PmMsg::ExecuteSwapOperations { operations, minimum_receive: Some(m), receiver, max_slippage } => {
                // minimum_receive: decided exactly against the same route without a minimum
                let snap = c.w.snapshot();
                let ctrl = c.exec_op(
                    &Op::Pm {
                        sender: sender.clone(),
                        msg: PmMsg::ExecuteSwapOperations { operations: operations.clone(), minimum_receive: None, receiver: receiver.clone(), max_slippage: *max_slippage },
                        funds: funds.clone(),
                    },
                    None,
                );
                c.stats.forks += 1;
                let r: Option<u128> = ctrl.attr("return_amount").and_then(|v| v.parse().ok());
                c.w.restore(&snap);
                let o = c.exec_op(&step.op, None);
                let changed = !c.w.storage_eq(&snap);
                c.w.restore(&snap);
                if let (true, Some(r)) = (ctrl.ok(), r) {
                    if o.ok() != (r >= m.u128()) {
                        return Err(viol(
                            "C13.minimum_receive",
                            format!("route returns {r}, minimum_receive {m}: {}", if o.ok() { "executed" } else { "refused" }),
                        ));
                    }
                    if !o.ok() && changed {
                        return Err(viol("C13.failed_route_changed_state", "route refused for minimum_receive but state changed".into()));
                    }
                    c.stats.bump("probe.c13.minimum_receive_checked");
                    if r == m.u128() {
                        c.stats.bump("probe.c13.minimum_receive_exact_boundary");
                    }
                }
            }
            PmMsg::ProvideLiquidity { liquidity_max_slippage, pool_identifier, unlocking_duration, .. } => {
                self.deposit_checks(c, pre, sender, pool_identifier, liquidity_max_slippage, funds, None)?;
                if unlocking_duration.is_some() || c.step_no % 3 == 0 {
                    let d = c.w.fm_config().min_unlocking_duration;
                    // (the per-user limit of open positions would refuse the lock for its own reasons)
                    let open = pre.positions.iter().filter(|p| p.open && p.receiver.as_str() == sender.as_str()).count();
                    if open < 9 {
                        c.stats.bump("probe.c13.deposit_checks_with_lock");
                        self.deposit_checks(c, pre, sender, pool_identifier, liquidity_max_slippage, funds, Some(d))?;
                    }
                }
            }
            _ => {}
        }
        let _ = Uint128::zero();
        Ok(())
    }

    fn post(&mut self, c: &mut SimCore, step: &Step, pre: &Obs, out: &TxOut, _post: &Obs) -> MResult {
        let snap = self.snap.take().expect("snap");
        // failed trades change nothing
        if let Op::Pm { msg, .. } = &step.op {
            if !out.ok() && matches!(msg, PmMsg::Swap { .. } | PmMsg::ExecuteSwapOperations { .. } | PmMsg::ProvideLiquidity { .. }) && !c.w.storage_eq(&snap) {
                return Err(viol("C13.failed_trade_changed_state", format!("{} refused but state changed at {:?}", step.op.kind(), c.w.storage_diff(&snap))));
            }
            if let PmMsg::Swap { pool_identifier, .. } = msg {
                if let Some(p) = pre.pool(pool_identifier) {
                    c.stats.sig(&["swap", p.pool_info.pool_type.get_label(), &format!("{:?}", p.pool_info.asset_decimals), if out.ok() { "ok" } else { "rej" }]);
                }
            }
        }
        Ok(())
    }
}
