//! Monitors: one module per property. A check for property X runs only X's monitors.

pub mod c01;
pub mod c02;
pub mod c03;
pub mod c04;
pub mod c05;
pub mod c06;
pub mod c07;
pub mod c08;
pub mod c09;
pub mod c10;
pub mod c11;
pub mod c12;
pub mod c13;
pub mod c14;
pub mod c15;
pub mod c16;
pub mod c17;
pub mod c18;
pub mod c19;
pub mod c20;
pub mod util;

use crate::gen::{profile_audit, profile_epoch, profile_farm, profile_full, profile_pool, Profile};
use crate::sim::Monitor;

pub const ALL: &[&str] = &[
    "C01", "C02", "C03", "C04", "C05", "C06", "C07", "C08", "C09", "C10", "C11", "C12", "C13", "C14", "C15", "C16",
    "C17", "C18", "C19", "C20",
];

pub fn monitors_for(prop: &str) -> Vec<Box<dyn Monitor>> {
    match prop {
        "C01" => vec![Box::new(c01::C01::default())],
        // "whenever withdrawals are enabled" is judged against what the owner asked for, not against
        // whatever the stored switch says: C02 also runs the switch model of C17
        "C02" => vec![Box::new(c02::C02), Box::new(c17::C17::default())],
        "C03" => vec![Box::new(c03::C03)],
        "C04" => vec![Box::new(c04::C04)],
        "C05" => vec![Box::new(c05::C05)],
        "C06" => vec![Box::new(c06::C06::default())],
        "C07" => vec![Box::new(c07::C07::default())],
        "C08" => vec![Box::new(c08::C08)],
        "C09" => vec![Box::new(c09::C09::default())],
        // the denominator the contract actually USES is only observable through what it pays:
        // C10 also runs the reward-share ledger of C07
        "C10" => vec![Box::new(c10::C10::default()), Box::new(c07::C07::default())],
        "C11" => vec![Box::new(c11::C11)],
        "C12" => vec![Box::new(c12::C12)],
        "C13" => vec![Box::new(c13::C13::default())],
        "C14" => vec![Box::new(c14::C14::default())],
        "C15" => vec![Box::new(c15::C15::default())],
        "C16" => vec![Box::new(c16::C16::default())],
        "C18" => vec![Box::new(c18::C18::default())],
        "C17" => vec![Box::new(c17::C17::default())],
        "C19" => vec![Box::new(c19::C19)],
        "C20" => vec![Box::new(c20::C20::default())],
        _ => vec![],
    }
}

pub fn profile_for(prop: &str) -> Profile {
    match prop {
        "C01" | "C02" | "C03" | "C04" | "C12" | "C13" | "C14" | "C16" | "C17" | "C19" => profile_pool(),
        "C05" | "C06" | "C07" | "C08" | "C09" | "C10" | "C11" => profile_farm(),
        "C15" => profile_audit(),
        "C18" => profile_epoch(),
        _ => profile_full(),
    }
}

/// (quick, thorough) number of runs. Quick stays within roughly half a minute on 16 cores,
/// thorough within roughly ten minutes.
pub fn budget(prop: &str) -> (u64, u64) {
    match prop {
        "C13" | "C15" => (4000, 120_000),
        "C20" | "C14" | "C06" | "C07" => (6000, 200_000),
        "C18" => (10_000, 400_000),
        // farm profile (longer runs): C05 C08 C09 C10 C11
        "C05" | "C08" | "C09" | "C10" | "C11" => (8000, 250_000),
        // pool profile (short runs): twice as many
        _ => (12_000, 250_000),
    }
}

pub fn level(prop: &str) -> &'static str {
    match prop {
        "C14" | "C20" => "fault_enumeration",
        _ => "exploration",
    }
}
