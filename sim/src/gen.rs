//! Seeded generation of world configurations and steps (the "scheduler": which actor sends which
//! message next, how far the clock moves, which fault is planted).

use std::collections::BTreeMap;
use std::str::FromStr;

use cosmwasm_std::{coin, Coin, Decimal, Uint128};
use mantra_dex_std::farm_manager::{
    ExecuteMsg as FmMsg, FarmAction, FarmParams, PositionAction,
};
use mantra_dex_std::fee::{Fee, PoolFee};
use mantra_dex_std::pool_manager::{
    ExecuteMsg as PmMsg, FeatureToggle, PoolInfoResponse, PoolType, SwapOperation,
};

use crate::rng::Rng;
use crate::seams::{CallKind, FaultSpec};
use crate::sim::SimCore;
use crate::trace::{Op, Step};
use crate::world::{bal, FarmCfg, WorldCfg};

pub const DAY: u64 = 86_400;
pub const MONTH: u64 = 2_629_746;
pub const YEAR: u64 = 31_556_926;

#[derive(Clone, Debug)]
pub struct Profile {
    pub name: &'static str,
    pub w: BTreeMap<&'static str, u32>,
    pub steps: (u64, u64),
    /// percent of steps that carry a sampled fault
    pub fault_pct: u64,
    /// number of leading steps biased to pool creation + funding
    pub setup_steps: u64,
    /// emit drain steps at the end of the run
    pub drain: bool,
    /// clock behaviour: probability (percent) of moving time at a step
    pub clock_pct: u64,
    pub allow_em_reconfig: bool,
    pub allow_pm_addr_churn: bool,
    pub genesis_offset_pct: u64,
}

fn wmap(items: &[(&'static str, u32)]) -> BTreeMap<&'static str, u32> {
    items.iter().cloned().collect()
}

pub fn profile_pool() -> Profile {
    Profile {
        name: "pool",
        w: wmap(&[
            ("create_pool", 6),
            ("provide", 18),
            ("provide_single", 8),
            ("provide_locked", 3),
            ("withdraw", 10),
            ("swap", 25),
            ("route", 8),
            ("donate", 3),
            ("pm_cfg", 2),
            ("toggle", 3),
            ("pos_misc", 1),
            ("nanos", 1),
        ]),
        steps: (25, 70),
        fault_pct: 3,
        setup_steps: 6,
        drain: true,
        clock_pct: 10,
        allow_em_reconfig: false,
        allow_pm_addr_churn: true,
        genesis_offset_pct: 5,
    }
}

pub fn profile_farm() -> Profile {
    Profile {
        name: "farm",
        w: wmap(&[
            ("create_pool", 1),
            ("provide", 5),
            ("provide_locked", 4),
            ("swap", 2),
            ("farm_create", 9),
            ("farm_expand", 4),
            ("farm_close", 3),
            ("pos_create", 14),
            ("pos_expand", 7),
            ("pos_close", 9),
            ("pos_withdraw", 7),
            ("pos_emergency", 4),
            ("claim", 18),
            ("fm_cfg", 2),
            ("donate", 1),
            ("freeze", 1),
            ("dry_claims", 3),
            ("nanos", 2),
        ]),
        steps: (40, 110),
        fault_pct: 3,
        setup_steps: 8,
        drain: true,
        clock_pct: 45,
        allow_em_reconfig: false,
        allow_pm_addr_churn: false,
        genesis_offset_pct: 5,
    }
}

pub fn profile_full() -> Profile {
    let mut p = profile_farm();
    p.name = "full";
    for (k, v) in profile_pool().w {
        let e = p.w.entry(k).or_insert(0);
        *e = (*e).max(v / 2 + 1);
    }
    p.w.insert("ownership", 4);
    p.w.insert("em_cfg", 1);
    p.w.insert("pm_cfg", 3);
    p.w.insert("fm_cfg", 3);
    p.steps = (30, 80);
    p.allow_em_reconfig = true;
    p
}

pub fn profile_audit() -> Profile {
    let mut p = profile_full();
    p.name = "audit";
    p.w.insert("audit", 5);
    p.w.insert("ownership", 12);
    p.steps = (20, 45);
    p.fault_pct = 0;
    p.drain = false;
    p
}

pub fn profile_epoch() -> Profile {
    Profile {
        name: "epoch",
        w: wmap(&[("epoch_new", 3), ("epoch_probe", 10), ("em_cfg", 4), ("nanos", 3)]),
        steps: (30, 80),
        fault_pct: 0,
        setup_steps: 0,
        drain: false,
        clock_pct: 0,
        allow_em_reconfig: true,
        allow_pm_addr_churn: false,
        genesis_offset_pct: 40,
    }
}

pub fn gen_cfg(rng: &mut Rng, prof: &Profile) -> WorldCfg {
    let denoms: Vec<(String, u8)> = vec![
        ("uom".into(), 6),
        ("uusdc".into(), 6),
        ("uusdt".into(), 6),
        ("aeth".into(), 18),
        ("wbtc".into(), 8),
        ("utwelve".into(), 12),
    ];
    let small = rng.chance(1, 12);
    // whale worlds: everybody holds 1e37 units of everything, so that amounts near the 128-bit
    // ceiling (after normalisation to the pool's highest precision) can be deposited
    // (pool profile only: the farm-side monitors' own arithmetic is written for amounts below 1e30)
    let whale = !small && prof.name == "pool" && rng.chance(1, 12);
    // harness stress switch (not used by any registered command): every pool-profile world a whale world
    let whale = whale || (prof.name == "pool" && std::env::var("VERIF_FORCE_WHALE").is_ok());
    let init_balance: Vec<u128> = denoms
        .iter()
        .map(|(_, d)| {
            if whale {
                10u128.pow(37)
            } else if small {
                10u128.pow(*d as u32 + 3)
            } else {
                10u128.pow(*d as u32 + 12)
            }
        })
        .collect();
    let tf_fees = match rng.below(4) {
        0 => vec![],
        1 | 2 => vec![coin(1000, "uom")],
        _ => vec![coin(1000, "uom"), coin(500, "uusdc")],
    };
    let pool_creation_fee = match rng.below(5) {
        0 => coin(0, "uom"),
        1 | 2 => coin(1000, "uom"),
        3 => coin(777, "uusdc"),
        _ => coin(55, "uusdt"),
    };
    let create_farm_fee = match rng.below(6) {
        0 => coin(0, "uom"),
        1 => coin(0, "uusdt"),
        2 | 3 => coin(1000, "uom"),
        4 => coin(350, "uusdc"),
        _ => coin(1, "aeth"),
    };
    let penalty = *rng.pick(&["0", "0.01", "0.02", "0.1", "0.25", "0.5", "0.9", "1"]);
    let farm = FarmCfg {
        create_farm_fee,
        // mostly small limits; sometimes more farms than one page of the farm queries (10)
        max_concurrent_farms: if rng.chance(1, 10) { 12 } else { rng.range(1, 4) as u32 },
        max_farm_epoch_buffer: *rng.pick(&[1u32, 3, 14, 14, 30]),
        min_unlocking_duration: DAY,
        max_unlocking_duration: *rng.pick(&[YEAR, YEAR, 31_536_000, 30 * DAY]),
        farm_expiration_time: *rng.pick(&[MONTH, MONTH, 2 * MONTH]),
        emergency_unlock_penalty: Decimal::from_str(penalty).unwrap(),
    };
    let genesis_offset = if rng.chance(prof.genesis_offset_pct, 100) { rng.range(1, 3 * DAY) } else { 0 };
    WorldCfg {
        start_time: 1_700_000_000 + rng.below(1_000_000),
        epoch_duration: *rng.pick(&[DAY, DAY, DAY, 100_000, 2 * DAY, 10 * DAY]),
        genesis_offset,
        tf_fees,
        pool_creation_fee,
        farm,
        n_users: rng.range(3, 5) as usize,
        denoms,
        init_balance,
    }
}

pub struct Gen {
    pub rng: Rng,
    pub prof: Profile,
    pub total_steps: u64,
    pub emitted: u64,
    pub next_id: u32,
    /// per-run swarm mask: op kinds disabled for this run
    pub disabled: Vec<&'static str>,
    pub draining: bool,
    pub drain_phase: u8,
    pub drain_tried: std::collections::BTreeSet<String>,
    /// remaining steps of a burst of valid farm creations on one LP token (worlds whose farm limit
    /// exceeds one page of the farm queries)
    pub burst_left: u32,
    pub burst_done: bool,
    /// swarm: this run spends a longer setup phase creating and funding five or more pools (long
    /// simple routes need them)
    pub pool_rich: bool,
    /// seconds the clock will advance before the operation being generated executes
    pub step_dt: u64,
    /// recently emitted operations: redelivered verbatim as duplicate / delayed transactions
    pub recent: Vec<Op>,
    /// one user piling up open positions (the per-user limit is 10), directly and through the
    /// pool manager
    /// weight churn: (user, lp denom, expansions left, phase) - one user changes their weight in
    /// more consecutive epochs than one page of snapshots (10) without claiming, then leaves the LP
    /// token, re-enters and claims
    pub churn: Option<(String, String, u32, u8)>,
    pub churn_done: bool,
    pub hoard_left: u32,
    /// after hoarding: the hoarder closes position after position (the limit of 10 applies to closed
    /// positions as well), then withdraws what has expired
    pub hoard_close_left: u32,
    pub hoard_done: bool,
    pub hoarder: Option<String>,
}

fn dec(s: &str) -> Decimal {
    Decimal::from_str(s).unwrap()
}

impl Gen {
    pub fn new(mut rng: Rng, prof: Profile) -> Gen {
        let total_steps = rng.range(prof.steps.0, prof.steps.1);
        // swarm: disable a random subset of op kinds for this run
        let mut disabled = vec![];
        let kinds: Vec<&'static str> = prof.w.keys().cloned().collect();
        if rng.chance(1, 2) && kinds.len() > 6 {
            let n = rng.below(3) + 1;
            for _ in 0..n {
                let k = *rng.pick(&kinds);
                if !["provide", "create_pool", "pos_create"].contains(&k) {
                    disabled.push(k);
                }
            }
        }
        let pool_rich = prof.w.contains_key("route") && rng.chance(1, 7);
        Gen { churn: None, churn_done: false, hoard_close_left: 0, hoard_left: 0, hoard_done: false, hoarder: None, recent: vec![], step_dt: 0, pool_rich, rng, prof, total_steps, emitted: 0, next_id: 0, disabled, draining: false, drain_phase: 0, drain_tried: Default::default(), burst_left: 0, burst_done: false }
    }

    fn uid(&mut self, p: &str) -> String {
        self.next_id += 1;
        format!("{}{}", p, self.next_id)
    }

    pub fn done(&self) -> bool {
        self.emitted >= self.total_steps && !self.prof.drain
    }

    // ------------------------------------------------------------------------------------- clock
    fn gen_dt(&mut self, c: &SimCore) -> u64 {
        let rng = &mut self.rng;
        if !rng.chance(self.prof.clock_pct, 100) {
            return 0;
        }
        let now = c.w.now();
        // interesting instants
        let mut inst: Vec<u64> = vec![];
        let gen = c.w.genesis();
        let dur = c.w.cfg.epoch_duration;
        if now < gen {
            inst.push(gen);
        } else {
            let k = (now - gen) / dur;
            inst.push(gen + (k + 1) * dur);
            inst.push(gen + (k + 2) * dur);
        }
        for p in c.obs.positions.iter() {
            if let Some(e) = p.expiring_at {
                if e + 1 > now {
                    inst.push(e);
                }
            }
        }
        for f in c.obs.farms.iter() {
            let end = gen.saturating_add((f.preliminary_end_epoch.saturating_add(1)).saturating_mul(dur));
            if end > now {
                inst.push(end);
            }
            let exp = end.saturating_add(c.w.cfg.farm.farm_expiration_time);
            if exp > now {
                inst.push(exp);
            }
            let st = gen.saturating_add(f.start_epoch.saturating_mul(dur));
            if st > now {
                inst.push(st);
            }
        }
        inst.retain(|t| *t > now.saturating_sub(1) && *t < now + 3 * YEAR);
        match rng.below(10) {
            0..=4 if !inst.is_empty() => {
                let t = *rng.pick(&inst);
                let off = rng.below(3); // -1, 0, +1
                let target = (t + off).saturating_sub(1);
                target.saturating_sub(now)
            }
            5 => rng.range(1, 3600),
            6 => rng.range(1, dur),
            7 => dur * rng.range(1, 5),
            8 => rng.range(DAY, 40 * DAY),
            _ => {
                if rng.chance(1, 6) {
                    rng.range(MONTH, YEAR + MONTH)
                } else {
                    dur
                }
            }
        }
    }

    // ------------------------------------------------------------------------------------- helpers
    /// an existing identifier, occasionally the way a user might mistype it: without its prefix,
    /// with the prefix twice, with another prefix
    fn ident(&mut self, id: &str) -> String {
        if !self.rng.chance(1, 12) {
            return id.to_string();
        }
        let bare = id.trim_start_matches("u-").trim_start_matches("p-").trim_start_matches("m-").trim_start_matches("f-").to_string();
        match self.rng.below(5) {
            0 | 1 => bare,
            2 => format!("u-{id}"),
            3 => format!("p-{bare}"),
            _ => format!("m-{bare}"),
        }
    }
    /// the epoch in force when the operation being generated executes (after the step's clock
    /// advance); one time in five the epoch before the advance (stale view: boundary cases)
    fn exec_epoch(&mut self, c: &SimCore) -> u64 {
        let stale = c.w.current_epoch().unwrap_or(0);
        if self.step_dt == 0 || self.rng.chance(1, 5) {
            return stale;
        }
        let em = c.w.em_config(&c.w.fm_config().epoch_manager_addr).epoch_config;
        let t = c.w.now().saturating_add(self.step_dt);
        let (g, d) = (em.genesis_epoch.u64(), em.duration.u64().max(1));
        if t < g {
            stale
        } else {
            (t - g) / d
        }
    }
    fn user(&mut self, c: &SimCore) -> String {
        self.rng.pick(&c.w.a.users).to_string()
    }
    fn any_sender(&mut self, c: &SimCore) -> String {
        match self.rng.below(12) {
            0 => c.w.a.owner.to_string(),
            1 => c.w.a.stranger.to_string(),
            _ => self.user(c),
        }
    }
    fn slippage(&mut self) -> Option<Decimal> {
        let r = &mut self.rng;
        match r.below(20) {
            0..=5 => None,
            6..=11 => Some(dec("0.5")),
            12 => Some(dec("0")),
            13 => Some(dec(*r.pick(&["0.001", "0.005", "0.01", "0.02"]))),
            14 | 15 => Some(dec(*r.pick(&["0.05", "0.1", "0.3"]))),
            16 | 17 => Some(dec(*r.pick(&["0.7", "1"]))),
            18 => Some(dec("0.499999999999999999")),
            _ => Some(dec(*r.pick(&["1.000000000000000001", "1.5", "3"]))),
        }
    }
    fn liq_slippage(&mut self) -> Option<Decimal> {
        if self.rng.chance(3, 5) {
            None
        } else {
            self.slippage()
        }
    }
    fn amount(&mut self, reserve: u128, balance: u128, decimals: u8) -> u128 {
        let r = &mut self.rng;
        let base = if reserve > 0 { reserve } else { 10u128.pow(decimals as u32 + 4) };
        let a = match r.below(12) {
            0 | 1 => r.range(1, 12) as u128,
            2..=4 => r.log_u128(base),
            5..=7 => base / 100_000 * (r.range(1, 900) as u128) + r.below(1000) as u128,
            8 | 9 => base / 1000 * (r.range(1, 400) as u128) + r.below(1000) as u128,
            10 => r.log_u128((base / 1000).max(2)),
            _ => base.saturating_mul(r.range(1, 4) as u128) + r.below(7) as u128,
        };
        let a = a.max(1);
        if balance > 0 {
            a.min(balance)
        } else {
            a
        }
    }
    fn pool_decimals(p: &PoolInfoResponse, denom: &str) -> u8 {
        p.pool_info
            .asset_denoms
            .iter()
            .position(|d| d == denom)
            .map(|i| p.pool_info.asset_decimals[i])
            .unwrap_or(6)
    }
    fn receiver(&mut self, c: &SimCore, sender: &str) -> Option<String> {
        match self.rng.below(12) {
            0 => Some(sender.to_string()),
            1 => Some(self.user(c)),
            2 => Some("not-an-address".to_string()),
            3 if self.rng.chance(1, 4) => Some(c.w.a.pm.to_string()),
            _ => None,
        }
    }

    // ------------------------------------------------------------------------------------- pool ops
    fn gen_fees(&mut self, invalid: bool) -> PoolFee {
        let r = &mut self.rng;
        let opts = ["0", "0", "0.0001", "0.001", "0.003", "0.01", "0.02", "0.05", "0.1", "0.000000000000000001"];
        let mut f = |r: &mut Rng| Fee { share: dec(*r.pick(&opts)) };
        let mut pf = PoolFee {
            protocol_fee: f(r),
            swap_fee: f(r),
            burn_fee: if r.chance(1, 2) { Fee { share: Decimal::zero() } } else { f(r) },
            extra_fees: vec![],
        };
        let n_extra = match r.below(6) {
            0 => 1,
            1 => 2,
            2 if r.chance(1, 3) => 3,
            _ => 0,
        };
        for _ in 0..n_extra {
            pf.extra_fees.push(f(r));
        }
        if r.chance(1, 10) {
            // exactly at the cap
            pf = PoolFee {
                protocol_fee: Fee { share: dec("0.05") },
                swap_fee: Fee { share: dec("0.1") },
                burn_fee: Fee { share: dec("0.03") },
                extra_fees: vec![Fee { share: dec("0.02") }],
            };
        }
        if r.chance(1, 8) {
            pf = PoolFee {
                protocol_fee: Fee { share: Decimal::zero() },
                swap_fee: Fee { share: Decimal::zero() },
                burn_fee: Fee { share: Decimal::zero() },
                extra_fees: vec![],
            };
        }
        if invalid {
            match r.below(3) {
                0 => pf.swap_fee = Fee { share: dec("0.200000000000000001") },
                1 => pf.protocol_fee = Fee { share: dec("1") },
                _ => pf.extra_fees.push(Fee { share: dec("0.21") }),
            }
        }
        pf
    }

    fn creation_funds(&mut self, c: &SimCore, perturb: bool) -> Vec<Coin> {
        let cfg = c.w.pm_config();
        let mut m: BTreeMap<String, u128> = BTreeMap::new();
        if !cfg.pool_creation_fee.amount.is_zero() {
            *m.entry(cfg.pool_creation_fee.denom.clone()).or_insert(0) += cfg.pool_creation_fee.amount.u128();
        }
        for f in c.w.cfg.tf_fees.iter() {
            *m.entry(f.denom.clone()).or_insert(0) += f.amount.u128();
        }
        let mut v: Vec<Coin> = m.into_iter().map(|(d, a)| coin(a, d)).collect();
        if perturb {
            let r = &mut self.rng;
            match r.below(5) {
                0 if !v.is_empty() => {
                    let i = r.below(v.len() as u64) as usize;
                    v[i].amount += Uint128::one();
                }
                1 if !v.is_empty() => {
                    let i = r.below(v.len() as u64) as usize;
                    if v[i].amount > Uint128::one() {
                        v[i].amount -= Uint128::one();
                    } else {
                        v.remove(i);
                    }
                }
                2 if !v.is_empty() => {
                    let i = r.below(v.len() as u64) as usize;
                    v.remove(i);
                }
                3 => v.push(coin(5, "wbtc")),
                _ => v.clear(),
            }
        }
        v
    }

    fn gen_create_pool(&mut self, c: &SimCore) -> Op {
        let invalid = self.rng.chance(1, 7);
        let which_invalid = if invalid { self.rng.below(8) } else { 99 };
        let stable = self.rng.chance(1, 2);
        let mut n = if stable { self.rng.range(2, 4) as usize } else { 2 };
        if which_invalid == 0 {
            n = if stable { 5 } else { 3 };
        }
        if which_invalid == 1 {
            n = 1;
        }
        // candidate denoms: base + LP denoms of existing pools (rarely)
        let mut cands: Vec<(String, u8)> = c.w.cfg.denoms.clone();
        if self.rng.chance(1, 6) {
            for p in c.obs.pools.iter() {
                cands.push((p.pool_info.lp_denom.clone(), 6));
            }
        }
        let mut denoms: Vec<String> = vec![];
        let mut decimals: Vec<u8> = vec![];
        let mut guard = 0;
        while denoms.len() < n && guard < 50 {
            guard += 1;
            let (d, k) = self.rng.pick(&cands).clone();
            if denoms.contains(&d) && which_invalid != 2 {
                continue;
            }
            denoms.push(d);
            let k = match self.rng.below(30) {
                0 => 0,
                1 => *self.rng.pick(&[6u8, 8, 12, 18]),
                2 if self.rng.chance(1, 3) => *self.rng.pick(&[19u8, 19, 24, 30]),
                _ => k,
            };
            decimals.push(k);
        }
        if which_invalid == 3 {
            // one decimals entry too few, or one too many
            if self.rng.chance(1, 2) {
                decimals.pop();
            } else {
                decimals.push(*self.rng.pick(&[6u8, 18]));
            }
        }
        let amp = if which_invalid == 4 {
            0
        } else {
            *self.rng.pick(&[1u64, 2, 10, 85, 100, 100, 1000, 5000, 100_000, 1_000_000, 1_000_001, 5_000_000, 1_000_000_000])
        };
        let pool_type = if stable { PoolType::StableSwap { amp } } else { PoolType::ConstantProduct };
        let pool_fees = self.gen_fees(which_invalid == 5);
        let pool_identifier = match self.rng.below(10) {
            0..=3 => None,
            4 if !c.obs.pools.is_empty() => {
                // collide with an existing one (strip the prefix when explicit)
                let id = self.rng.pick(&c.obs.pools).pool_info.pool_identifier.clone();
                Some(id.trim_start_matches("o.").to_string())
            }
            5 => Some(format!("p.{}", self.rng.range(1, 4))),
            // right at the length limit (the LP subdenom "<id>.LP" must fit in 44 characters)
            7 if self.rng.chance(1, 2) => {
                let n = self.rng.range(37, 42) as usize;
                let tag = self.uid("k");
                Some(format!("{}{}", tag, "z".repeat(n.saturating_sub(tag.len()))))
            }
            6 if which_invalid == 6 => Some(self.rng.pick(&["bad id", "x-y", "", "ünï", "aaaaaaaaaaaaaaaaaaaaaaaaaaaaaaaaaaaaaaaaaaaaaaaaaaaa"]).to_string()),
            _ => Some(self.uid("x")),
        };
        let perturb = which_invalid == 7 || self.rng.chance(1, 12);
        let funds = self.creation_funds(c, perturb);
        Op::Pm {
            sender: self.any_sender(c),
            msg: PmMsg::CreatePool {
                asset_denoms: denoms,
                asset_decimals: decimals,
                pool_fees,
                pool_type,
                pool_identifier,
            },
            funds,
        }
    }

    fn pick_pool<'a>(&mut self, c: &'a SimCore, funded: Option<bool>) -> Option<&'a PoolInfoResponse> {
        let v: Vec<&PoolInfoResponse> = c
            .obs
            .pools
            .iter()
            .filter(|p| match funded {
                None => true,
                Some(f) => (!p.total_share.amount.is_zero()) == f,
            })
            .collect();
        if v.is_empty() {
            None
        } else {
            Some(*self.rng.pick(&v))
        }
    }

    fn gen_provide(&mut self, c: &SimCore, single: bool, locked: bool) -> Op {
        let prefer_unfunded = self.rng.chance(1, 3);
        let p = match self
            .pick_pool(c, if single { Some(true) } else if prefer_unfunded { Some(false) } else { None })
            .or_else(|| self.pick_pool(c, None))
        {
            Some(p) => p.clone(),
            None => return self.gen_create_pool(c),
        };
        let sender = self.user(c);
        let pi = &p.pool_info;
        let funded = !p.total_share.amount.is_zero();
        let mut funds: Vec<Coin> = vec![];
        if single && pi.assets.len() >= 2 {
            let i = self.rng.below(pi.assets.len() as u64) as usize;
            let a = &pi.assets[i];
            let b = bal(&c.obs.bal, &sender, &a.denom);
            let mut amt = self.amount(a.amount.u128() / 4, b, pi.asset_decimals[i]);
            if self.rng.chance(1, 2) {
                amt |= 1; // odd
            }
            funds.push(coin(amt, a.denom.clone()));
        } else if !funded {
            // initial deposit
            let scale = self.rng.range(0, 9) as u32;
            // stableswap pools: half of the first deposits put in the same number of whole tokens
            // of every asset (a pool at its peg)
            let pegged = matches!(pi.pool_type, PoolType::StableSwap { .. }) && self.rng.chance(1, 2);
            let peg_div = *self.rng.pick(&[1u128, 1, 2, 3, 10, 1000]);
            for (i, a) in pi.assets.iter().enumerate() {
                let d = pi.asset_decimals[i].min(18) as u32;
                let b = bal(&c.obs.bal, &sender, &a.denom);
                let whole = 10u128.pow(d);
                let mut amt = match self.rng.below(8) {
                    0 => self.rng.range(1, 2000) as u128,
                    1 => self.rng.log_u128(10u128.pow(d + 9)),
                    _ => whole.saturating_mul(10u128.pow(scale)) / *self.rng.pick(&[1u128, 1, 1, 2, 3, 10, 1000]),
                };
                // whale worlds: a first deposit whose largest normalised amount sits at the 128-bit
                // ceiling divided by the number of assets (just below, at, just above)
                if b >= 10u128.pow(36) && self.rng.chance(1, 3) {
                    let mxd = *pi.asset_decimals.iter().max().unwrap() as u32;
                    let scale_up = 10u128.pow(mxd.saturating_sub(pi.asset_decimals[i] as u32).min(30));
                    let ceiling = u128::MAX / (pi.assets.len() as u128) / scale_up;
                    amt = match self.rng.below(4) {
                        0 => ceiling - ceiling / 1000,
                        1 => ceiling,
                        2 => ceiling + ceiling / 1000,
                        _ => ceiling / 3,
                    };
                }
                if pegged {
                    // the same number of whole tokens (in thousandths) of every asset, within what the
                    // sender holds of each
                    let want_milli = 1000u128.saturating_mul(10u128.pow(scale)) / peg_div;
                    let mut cap_milli = want_milli;
                    for (k, x) in pi.assets.iter().enumerate() {
                        let wk = 10u128.pow(pi.asset_decimals[k].min(18) as u32);
                        let bk = bal(&c.obs.bal, &sender, &x.denom);
                        if bk > 0 {
                            cap_milli = cap_milli.min(bk.saturating_mul(1000) / wk);
                        }
                    }
                    amt = whole.saturating_mul(cap_milli.max(1)) / 1000;
                }
                amt = amt.max(1);
                if b > 0 {
                    amt = amt.min(b);
                }
                if self.rng.chance(1, 25) && pi.assets.len() > 2 {
                    continue; // incomplete initial deposit
                }
                funds.push(coin(amt, a.denom.clone()));
            }
        } else {
            let shape = self.rng.below(10);
            let num = self.rng.range(1, 2000) as u128;
            let den = *self.rng.pick(&[10u128, 100, 1000, 10_000, 1_000_000]);
            for (i, a) in pi.assets.iter().enumerate() {
                let b = bal(&c.obs.bal, &sender, &a.denom);
                let res = a.amount.u128();
                let amt = match shape {
                    0..=4 => res.saturating_mul(num) / den, // exact proportion (up to flooring)
                    5 | 6 => {
                        let skew_n = self.rng.range(1, 3000) as u128;
                        (res.saturating_mul(num) / den).saturating_mul(skew_n) / 1000
                    }
                    7 => self.amount(res, b, pi.asset_decimals[i]),
                    _ => {
                        if self.rng.chance(1, 2) {
                            0
                        } else {
                            self.amount(res, b, pi.asset_decimals[i])
                        }
                    }
                };
                let amt = if b > 0 { amt.min(b) } else { amt };
                if amt > 0 {
                    funds.push(coin(amt, a.denom.clone()));
                }
            }
            if funds.is_empty() {
                let a = &pi.assets[0];
                funds.push(coin(self.rng.range(1, 1000) as u128, a.denom.clone()));
            }
            if self.rng.chance(1, 40) {
                funds.push(coin(7, "wbtc")); // foreign asset
            }
        }
        // the same denom in two entries (the host accepts it; amounts must be aggregated per denom)
        if !single && funds.len() >= 2 && self.rng.chance(1, 25) {
            let k = self.rng.below(funds.len() as u64) as usize;
            let a = funds[k].amount.u128();
            if a >= 2 {
                let first = a / 2;
                let d = funds[k].denom.clone();
                funds[k] = coin(first, d.clone());
                funds.insert(0, coin(a - first, d));
            }
        }
        let mut target_owner: Option<String> = None;
        let (unlocking_duration, lock_position_identifier) = if locked {
            let ud = self.unlock_duration(c);
            let lid = match self.rng.below(8) {
                0..=2 => None,
                3 | 4 => {
                    // an existing position (own or foreign), preferably one holding this pool's LP
                    let same: Vec<&mantra_dex_std::farm_manager::Position> =
                        c.obs.positions.iter().filter(|q| q.open && q.lp_asset.denom == pi.lp_denom).collect();
                    let v: Vec<&mantra_dex_std::farm_manager::Position> = c.obs.positions.iter().collect();
                    let pick = if !same.is_empty() && self.rng.chance(2, 3) { self.rng.pick_opt(&same) } else { self.rng.pick_opt(&v) };
                    pick.map(|p| {
                        target_owner = Some(p.receiver.to_string());
                        p.identifier.clone()
                    })
                }
                _ => Some(self.uid("L")),
            };
            (Some(ud), lid)
        } else {
            (None, if self.rng.chance(1, 50) { Some("zzz".to_string()) } else { None })
        };
        let mut receiver = self.receiver(c, &sender);
        // topping up somebody's position "on their behalf": receiver = the position's owner
        if let Some(o) = target_owner {
            if self.rng.chance(1, 3) {
                receiver = Some(o);
            }
        }
        Op::Pm {
            sender,
            msg: PmMsg::ProvideLiquidity {
                liquidity_max_slippage: self.liq_slippage(),
                swap_max_slippage: self.slippage(),
                receiver,
                pool_identifier: pi.pool_identifier.clone(),
                unlocking_duration,
                lock_position_identifier,
            },
            funds,
        }
    }

    fn unlock_duration(&mut self, c: &SimCore) -> u64 {
        let f = &c.w.cfg.farm;
        match self.rng.below(12) {
            0 => f.min_unlocking_duration,
            1 => f.max_unlocking_duration,
            2 => f.min_unlocking_duration.saturating_sub(1),
            3 => f.max_unlocking_duration + 1,
            4 => 200_000,
            5 => YEAR / 2,
            // present but zero / one second: "is there a lock" and "is the lock positive" differ
            6 if self.rng.chance(1, 2) => self.rng.below(2),
            _ => self.rng.range(f.min_unlocking_duration, f.max_unlocking_duration),
        }
    }

    fn lp_holders(c: &SimCore, lp: &str) -> Vec<(String, u128)> {
        let mut v = vec![];
        for u in c.w.a.users.iter().chain([&c.w.a.owner, &c.w.a.stranger, &c.w.a.owner2]) {
            let b = bal(&c.obs.bal, u.as_str(), lp);
            if b > 0 {
                v.push((u.to_string(), b));
            }
        }
        v
    }

    fn gen_withdraw(&mut self, c: &SimCore) -> Op {
        let p = match self.pick_pool(c, Some(true)) {
            Some(p) => p.clone(),
            None => return self.gen_provide(c, false, false),
        };
        let lp = p.pool_info.lp_denom.clone();
        let holders = Self::lp_holders(c, &lp);
        let (sender, b) = match self.rng.pick_opt(&holders) {
            Some(x) => x.clone(),
            None => (self.user(c), 0),
        };
        let amt = if b == 0 {
            self.rng.range(1, 1000) as u128
        } else {
            match self.rng.below(6) {
                0 => b,
                1 => 1,
                2 => self.rng.range(1, 20) as u128,
                _ => self.rng.log_u128(b),
            }
            .min(b)
        };
        let mut funds = vec![coin(amt, lp.clone())];
        if self.rng.chance(1, 40) {
            funds.push(coin(3, "uom"));
        }
        // a single coin that is not this pool's LP token: a pool asset, or another pool's LP token;
        // small enough that the contract's own locked LP could cover a burn
        if self.rng.chance(1, 25) {
            let others: Vec<String> = Self::lp_denoms(c).into_iter().filter(|d| *d != lp).collect();
            let d = if !others.is_empty() && self.rng.chance(1, 2) { self.rng.pick(&others).clone() } else { self.rng.pick(&p.pool_info.asset_denoms).clone() };
            let have = bal(&c.obs.bal, &sender, &d);
            let a = (self.rng.range(1, 1000) as u128).min(have.max(1));
            funds = vec![coin(a, d)];
        }
        Op::Pm {
            sender,
            msg: PmMsg::WithdrawLiquidity { pool_identifier: p.pool_info.pool_identifier.clone() },
            funds,
        }
    }

    fn gen_swap(&mut self, c: &SimCore) -> Op {
        let p = match self.pick_pool(c, Some(true)) {
            Some(p) => p.clone(),
            None => return self.gen_provide(c, false, false),
        };
        let pi = &p.pool_info;
        let n = pi.assets.len();
        let i = self.rng.below(n as u64) as usize;
        let mut j = self.rng.below(n as u64) as usize;
        if j == i && !self.rng.chance(1, 30) {
            j = (i + 1) % n;
        }
        let sender = self.user(c);
        let offer = &pi.assets[i];
        let b = bal(&c.obs.bal, &sender, &offer.denom);
        let amt = self.amount(offer.amount.u128(), b, pi.asset_decimals[i]);
        let mut funds = vec![coin(amt, offer.denom.clone())];
        if self.rng.chance(1, 50) {
            funds.push(coin(2, "uusdt"));
        }
        let ask = if self.rng.chance(1, 40) { "nonexistent".to_string() } else { pi.assets[j].denom.clone() };
        let belief_price = match self.rng.below(8) {
            0 => {
                // offer/ask ratio-ish belief price
                let num = offer.amount.u128().max(1);
                let den = pi.assets[j].amount.u128().max(1);
                let r = Decimal::checked_from_ratio(num, den).ok();
                r.map(|r| {
                    if self.rng.chance(1, 2) {
                        r
                    } else {
                        r.checked_mul(dec(*self.rng.pick(&["0.5", "0.9", "0.99", "1.01", "1.1", "2"]))).unwrap_or(r)
                    }
                })
            }
            1 if self.rng.chance(1, 4) => Some(Decimal::zero()),
            2 if self.rng.chance(1, 2) => Some(dec(*self.rng.pick(&["1", "0.5", "2", "0.000001", "1000000"]))),
            _ => None,
        };
        let receiver = self.receiver(c, &sender);
        let mut belief_price = belief_price;
        let mut max_slippage = self.slippage();
        // boundary steering: tolerances / belief prices placed right at the simulated outcome
        if self.rng.chance(1, 5) && funds.len() == 1 {
            let sim: Result<mantra_dex_std::pool_manager::SimulationResponse, _> = c.w.app.wrap().query_wasm_smart(
                c.w.a.pm.to_string(),
                &mantra_dex_std::pool_manager::QueryMsg::Simulation {
                    offer_asset: funds[0].clone(),
                    ask_asset_denom: ask.clone(),
                    pool_identifier: pi.pool_identifier.clone(),
                },
            );
            if let Ok(sim) = sim {
                let ret = sim.return_amount.u128();
                let spread = sim.slippage_amount.u128();
                if ret > 0 {
                    if self.rng.chance(1, 2) {
                        // max_slippage around spread / (return + spread), the quantity the contract compares
                        if let Ok(r) = Decimal::checked_from_ratio(spread, ret.saturating_add(spread)) {
                            let eps = Decimal::from_atomics(self.rng.range(0, 3) as u128, 18).unwrap();
                            let v = match self.rng.below(3) {
                                0 => r,
                                1 => r.checked_add(eps).unwrap_or(r),
                                _ => r.checked_sub(eps).unwrap_or(r),
                            };
                            max_slippage = Some(v);
                            belief_price = None;
                        }
                    } else {
                        // belief price such that offer / belief x (1 - s) is within a unit of the return
                        let s_eff = max_slippage.unwrap_or(dec("0.01")).min(dec("0.5"));
                        let one_minus = Decimal::one() - s_eff;
                        // expected = ret / (1 - s)  =>  belief = offer / expected
                        let target = ret as i128 + self.rng.range(0, 4) as i128 - 2;
                        if target > 0 && !one_minus.is_zero() {
                            if let Ok(exp) = Decimal::checked_from_ratio(target as u128, 1u128).and_then(|t| t.checked_div(one_minus).map_err(|_| cosmwasm_std::CheckedFromRatioError::DivideByZero)) {
                                if !exp.is_zero() {
                                    if let Ok(bp) = Decimal::checked_from_ratio(amt, 1u128).and_then(|o| o.checked_div(exp).map_err(|_| cosmwasm_std::CheckedFromRatioError::DivideByZero)) {
                                        if !bp.is_zero() {
                                            belief_price = Some(bp);
                                        }
                                    }
                                }
                            }
                        }
                    }
                }
            }
        }
        Op::Pm {
            sender,
            msg: PmMsg::Swap {
                ask_asset_denom: ask,
                belief_price,
                max_slippage,
                receiver,
                pool_identifier: pi.pool_identifier.clone(),
            },
            funds,
        }
    }

    fn gen_route(&mut self, c: &SimCore) -> Op {
        let funded: Vec<&PoolInfoResponse> =
            c.obs.pools.iter().filter(|p| !p.total_share.amount.is_zero()).collect();
        if funded.is_empty() {
            return self.gen_provide(c, false, false);
        }
        let hops = if self.rng.chance(1, 6) { self.rng.range(5, 7) } else { self.rng.range(1, 4) };
        let first = *self.rng.pick(&funded);
        let mut cur = self.rng.pick(&first.pool_info.asset_denoms).clone();
        let start = cur.clone();
        let mut ops = vec![];
        // long routes may pass through a pool more than once (five distinct connected pools are rare)
        let simple = self.rng.chance(3, 4) && hops <= 4;
        let mut used: Vec<String> = vec![];
        for _ in 0..hops {
            let cands: Vec<&&PoolInfoResponse> = funded
                .iter()
                .filter(|p| p.pool_info.asset_denoms.contains(&cur))
                .filter(|p| !simple || !used.contains(&p.pool_info.pool_identifier))
                .collect();
            if cands.is_empty() {
                break;
            }
            let p = **self.rng.pick(&cands);
            let outs: Vec<&String> = p.pool_info.asset_denoms.iter().filter(|d| **d != cur).collect();
            // rarely a degenerate hop that asks for the denom it offers; sometimes head back to the
            // starting denom (cycles)
            let out = if self.rng.chance(1, 40) {
                cur.clone()
            } else if !ops.is_empty() && outs.contains(&&start) && self.rng.chance(1, 2) {
                start.clone()
            } else {
                (*self.rng.pick(&outs)).clone()
            };
            used.push(p.pool_info.pool_identifier.clone());
            ops.push(SwapOperation::MantraSwap {
                token_in_denom: cur.clone(),
                token_out_denom: out.clone(),
                pool_identifier: p.pool_info.pool_identifier.clone(),
            });
            cur = out;
        }
        if self.rng.chance(1, 40) && ops.len() >= 2 {
            ops.swap(0, 1); // non-consecutive
        }
        if self.rng.chance(1, 8) && ops.len() >= 3 {
            // a later link broken: operation k is replaced by an unrelated, in itself valid swap of
            // some funded pool, so its declared input is not what the previous hop produced
            // (checks that compare operations pairwise from the start miss the link into an even index)
            let k = if self.rng.chance(1, 2) && ops.len() >= 3 { 2 } else { self.rng.range(1, ops.len() as u64 - 1) as usize };
            let p = *self.rng.pick(&funded);
            let n = p.pool_info.asset_denoms.len();
            let i = self.rng.below(n as u64) as usize;
            let j = (i + 1 + self.rng.below(n as u64 - 1) as usize) % n;
            ops[k] = SwapOperation::MantraSwap {
                token_in_denom: p.pool_info.asset_denoms[i].clone(),
                token_out_denom: p.pool_info.asset_denoms[j].clone(),
                pool_identifier: p.pool_info.pool_identifier.clone(),
            };
        }
        if self.rng.chance(1, 60) {
            ops.clear();
        }
        let sender = self.user(c);
        let b = bal(&c.obs.bal, &sender, &start);
        let res = first.pool_info.assets.iter().find(|a| a.denom == start).map(|a| a.amount.u128()).unwrap_or(0);
        let amt = self.amount(res, b, Self::pool_decimals(first, &start));
        // minimum receive around the simulated output
        let mut minimum_receive = None;
        if self.rng.chance(1, 3) && !ops.is_empty() {
            let sim: Result<mantra_dex_std::pool_manager::SimulateSwapOperationsResponse, _> =
                c.w.app.wrap().query_wasm_smart(
                    c.w.a.pm.to_string(),
                    &mantra_dex_std::pool_manager::QueryMsg::SimulateSwapOperations {
                        offer_amount: Uint128::new(amt),
                        operations: ops.clone(),
                    },
                );
            if let Ok(s) = sim {
                let r = s.return_amount.u128();
                let m = match self.rng.below(4) {
                    0 => r,
                    1 => r + 1,
                    2 => r.saturating_sub(1),
                    _ => r / 2,
                };
                minimum_receive = Some(Uint128::new(m));
            }
        }
        let receiver = self.receiver(c, &sender);
        Op::Pm {
            sender,
            msg: PmMsg::ExecuteSwapOperations {
                operations: ops,
                minimum_receive,
                receiver,
                max_slippage: self.slippage(),
            },
            funds: vec![coin(amt, start)],
        }
    }

    fn gen_donate(&mut self, c: &SimCore) -> Op {
        let from = self.user(c);
        let to = if self.rng.chance(2, 3) { c.w.a.pm.to_string() } else { c.w.a.fm.to_string() };
        // any denom the user holds
        let held: Vec<(String, u128)> = c
            .obs
            .bal
            .get(&from)
            .map(|m| m.iter().map(|(d, a)| (d.clone(), *a)).collect())
            .unwrap_or_default();
        let (d, b) = match self.rng.pick_opt(&held) {
            Some(x) => x.clone(),
            None => ("uom".to_string(), 0),
        };
        let amt = self.amount(0, b, 2);
        Op::Send { from, to, coins: vec![coin(amt, d)] }
    }

    fn gen_pm_cfg(&mut self, c: &SimCore) -> Op {
        let sender = if self.rng.chance(1, 6) { self.user(c) } else { c.w.a.owner.to_string() };
        let mut fee_collector_addr = None;
        let mut farm_manager_addr = None;
        let mut pool_creation_fee = None;
        match self.rng.below(3) {
            0 if self.prof.allow_pm_addr_churn => {
                fee_collector_addr =
                    Some(self.rng.pick(&[c.w.a.fc.clone(), c.w.a.fc2.clone(), c.w.a.alt[0].clone()]).to_string());
            }
            1 => {
                pool_creation_fee = Some(match self.rng.below(4) {
                    0 => coin(0, "uom"),
                    1 => coin(1000, "uom"),
                    2 => coin(321, "uusdc"),
                    _ => coin(2, "wbtc"),
                });
            }
            _ => {
                if self.rng.chance(1, 10) {
                    farm_manager_addr = Some("invalid".to_string());
                }
            }
        }
        Op::Pm {
            sender,
            msg: PmMsg::UpdateConfig { fee_collector_addr, farm_manager_addr, pool_creation_fee, feature_toggle: None },
            funds: if self.rng.chance(1, 20) { vec![coin(1, "uom")] } else { vec![] },
        }
    }

    fn gen_toggle(&mut self, c: &SimCore) -> Op {
        let sender = if self.rng.chance(1, 8) { self.user(c) } else { c.w.a.owner.to_string() };
        let pid = match self.pick_pool(c, None) {
            Some(p) => p.pool_info.pool_identifier.clone(),
            None => "o.none".to_string(),
        };
        let mut b = |r: &mut Rng| match r.below(8) {
            0..=2 => None,
            3 => Some(false),
            _ => Some(true),
        };
        let ft = FeatureToggle {
            pool_identifier: pid,
            withdrawals_enabled: b(&mut self.rng),
            deposits_enabled: b(&mut self.rng),
            swaps_enabled: b(&mut self.rng),
        };
        // one time in four the switches travel together with an (unchanged) configuration value
        let cfg = c.w.pm_config();
        let (mut fee_collector_addr, mut farm_manager_addr, mut pool_creation_fee) = (None, None, None);
        if self.rng.chance(1, 4) {
            match self.rng.below(3) {
                0 => fee_collector_addr = Some(cfg.fee_collector_addr.to_string()),
                1 => farm_manager_addr = Some(cfg.farm_manager_addr.to_string()),
                _ => pool_creation_fee = Some(cfg.pool_creation_fee.clone()),
            }
        }
        Op::Pm {
            sender,
            msg: PmMsg::UpdateConfig { fee_collector_addr, farm_manager_addr, pool_creation_fee, feature_toggle: Some(ft) },
            funds: vec![],
        }
    }

    // ------------------------------------------------------------------------------------- farm ops
    fn lp_denoms(c: &SimCore) -> Vec<String> {
        c.obs.pools.iter().map(|p| p.pool_info.lp_denom.clone()).collect()
    }

    fn gen_farm_create(&mut self, c: &SimCore) -> Op {
        let lps = Self::lp_denoms(c);
        let lp = match self.rng.pick_opt(&lps) {
            Some(l) if !self.rng.chance(1, 30) => l.clone(),
            _ => "factory/someone/else.LP".to_string(),
        };
        let cur = self.exec_epoch(c);
        let fmc = c.w.fm_config();
        let buffer = fmc.max_farm_epoch_buffer as u64;
        let start_epoch = match self.rng.below(20) {
            0..=8 => None,
            9 => Some(cur),
            10 => Some(cur + buffer + 1),
            11 => Some(cur + buffer),
            12..=16 => Some(cur + self.rng.range(1, buffer.clamp(1, 3))),
            _ => Some(cur + self.rng.range(1, buffer.max(1))),
        };
        let s = start_epoch.unwrap_or(cur + 1);
        let long_farm = self.rng.chance(1, 8);
        let preliminary_end_epoch = match self.rng.below(10) {
            _ if long_farm => Some(s + self.rng.range(50, 3000)),
            0 | 1 => None,
            2 => Some(s),
            3 => Some(s + 1),
            4 if self.rng.chance(1, 5) => Some(u64::MAX / *self.rng.pick(&[1u64, 2, 86400, 100_000_000])),
            _ => Some(s + self.rng.range(1, 12)),
        };
        let mut sender = self.any_sender(c);
        let mut lp = lp;
        // worlds whose limit exceeds one page of the farm queries: pile farms onto one LP token
        if fmc.max_concurrent_farms > 10 && self.rng.chance(3, 4) {
            if let Some(first) = lps.first() {
                lp = first.clone();
            }
        }
        // farms where LP is actually locked, so that rewards flow and penalties are shared
        if self.rng.chance(1, 2) {
            let locked: Vec<String> = c.obs.positions.iter().map(|p| p.lp_asset.denom.clone()).collect();
            if let Some(d) = self.rng.pick_opt(&locked) {
                lp = d.clone();
            }
        }
        // several farms of one owner on one LP token (penalty shares are per owner, not per farm)
        if self.rng.chance(1, 3) {
            if let Some(f) = self.rng.pick_opt(&c.obs.farms) {
                sender = f.owner.to_string();
                lp = f.lp_denom.clone();
            }
        }
        // reward asset: base denom, sometimes an LP denom
        let denom = if self.rng.chance(1, 8) && !lps.is_empty() {
            self.rng.pick(&lps).clone()
        } else {
            self.rng.pick(&c.w.cfg.denoms).0.clone()
        };
        let b = bal(&c.obs.bal, &sender, &denom);
        let amount = match self.rng.below(10) {
            // a reward that is not a multiple of a long duration: remainder above the emission rate
            _ if long_farm => self.rng.range(1000, 9000) as u128,
            0 => 999,
            1 => 1000,
            2 => self.rng.range(1000, 5000) as u128,
            _ => self.rng.log_u128(10u128.pow(12)).max(1000),
        };
        let amount = if b > 1000 { amount.min(b / 2) } else { amount };
        let farm_identifier = match self.rng.below(8) {
            0..=2 => None,
            3 if !c.obs.farms.is_empty() => {
                let id = self.rng.pick(&c.obs.farms).identifier.clone();
                Some(id.trim_start_matches("m-").to_string())
            }
            4 => Some(format!("f-{}", self.rng.range(1, 3))),
            _ => Some(self.uid("F")),
        };
        let fee = fmc.create_farm_fee.clone();
        // funds by fee configuration
        let mut funds: Vec<Coin> = vec![];
        // half of the creations are funded exactly; the other half draws from the variants below
        let variant = if self.rng.chance(1, 2) { 6 } else { self.rng.below(12) };
        if fee.denom == denom {
            let total = amount + fee.amount.u128();
            funds.push(coin(
                match variant {
                    0 => total.saturating_add(match self.rng.below(3) {
                        0 => amount.saturating_add(self.rng.range(0, 3) as u128),
                        _ => 1,
                    }),
                    1 => total.saturating_sub(1),
                    // exactly the fee, nothing for the declared reward
                    3 if !fee.amount.is_zero() => fee.amount.u128(),
                    _ => total,
                },
                denom.clone(),
            ));
            if variant == 2 {
                funds.push(coin(5, "wbtc"));
            }
        } else {
            funds.push(coin(
                match variant {
                    0 => amount + 1,
                    5 => amount.saturating_sub(self.rng.range(1, 900) as u128).max(1),
                    _ => amount,
                },
                denom.clone(),
            ));
            if !fee.amount.is_zero() {
                funds.push(coin(
                    match variant {
                        // overpay: refunded - by a little, by exactly the reward, by more than the reward
                        1 => fee.amount.u128().saturating_add(match self.rng.below(4) {
                            0 => amount,
                            1 => amount.saturating_add(self.rng.range(1, 5000) as u128),
                            2 => amount.saturating_mul(3),
                            _ => self.rng.range(1, 50) as u128,
                        }),
                        2 => fee.amount.u128().saturating_sub(1),
                        _ => fee.amount.u128(),
                    },
                    fee.denom.clone(),
                ));
                if variant == 3 {
                    funds.pop();
                }
            } else {
                match variant {
                    // zero fee in another denom: reward alone, or with an unrelated second coin
                    0..=6 => {}
                    7 | 8 => funds.push(coin(self.rng.range(1, 20) as u128, "wbtc")),
                    _ => funds.push(coin(1, fee.denom.clone())),
                }
            }
            if variant == 4 {
                funds.push(coin(9, "utwelve"));
            }
        }
        funds.retain(|c| !c.amount.is_zero());
        funds.sort_by(|a, b| a.denom.cmp(&b.denom));
        if self.burst_left > 0 {
            if let Some(op) = self.gen_farm_burst(c) {
                return op;
            }
        }
        Op::Fm {
            sender,
            msg: FmMsg::ManageFarm {
                action: FarmAction::Create {
                    params: FarmParams {
                        lp_denom: lp,
                        start_epoch,
                        preliminary_end_epoch,
                        curve: None,
                        farm_asset: coin(amount, denom),
                        farm_identifier,
                    },
                },
            },
            funds,
        }
    }

    /// one well-formed farm on the first LP token, funded exactly, active soon and for a while
    fn gen_farm_burst(&mut self, c: &SimCore) -> Option<Op> {
        let lp = Self::lp_denoms(c).first()?.clone();
        let fmc = c.w.fm_config();
        let fee = fmc.create_farm_fee.clone();
        let cur = self.exec_epoch(c);
        let start_epoch = match self.rng.below(4) {
            0 | 1 => None,
            2 => Some(cur + 1),
            _ => Some(cur + 1 + (fmc.max_farm_epoch_buffer as u64).min(1).saturating_sub(self.rng.below(2))),
        };
        let s = start_epoch.unwrap_or(cur + 1);
        let preliminary_end_epoch = Some(s + self.rng.range(4, 14));
        let denom = self.rng.pick(&c.w.cfg.denoms).0.clone();
        let amount = self.rng.range(1000, 9000) as u128;
        // a sender who can afford it
        let users: Vec<String> = c.w.a.users.iter().map(|u| u.to_string()).collect();
        let mut sender = self.rng.pick(&users).clone();
        for _ in 0..4 {
            let need = amount + if fee.denom == denom { fee.amount.u128() } else { 0 };
            if bal(&c.obs.bal, &sender, &denom) >= need && (fee.denom == denom || bal(&c.obs.bal, &sender, &fee.denom) >= fee.amount.u128()) {
                break;
            }
            sender = self.rng.pick(&users).clone();
        }
        let mut funds = if fee.denom == denom {
            vec![coin(amount + fee.amount.u128(), denom.clone())]
        } else {
            vec![coin(amount, denom.clone()), coin(fee.amount.u128(), fee.denom.clone())]
        };
        funds.retain(|c| !c.amount.is_zero());
        funds.sort_by(|a, b| a.denom.cmp(&b.denom));
        let farm_identifier = if self.rng.chance(1, 4) { Some(self.uid("B")) } else { None };
        Some(Op::Fm {
            sender,
            msg: FmMsg::ManageFarm {
                action: FarmAction::Create {
                    params: FarmParams { lp_denom: lp, start_epoch, preliminary_end_epoch, curve: None, farm_asset: coin(amount, denom), farm_identifier },
                },
            },
            funds,
        })
    }

    fn gen_farm_expand(&mut self, c: &SimCore) -> Op {
        // mostly farms that can still be expanded (current epoch before the preliminary end)
        let cur = self.exec_epoch(c);
        let live: Vec<mantra_dex_std::farm_manager::Farm> = c.obs.farms.iter().filter(|f| cur < f.preliminary_end_epoch && f.claimed_amount < f.farm_asset.amount).cloned().collect();
        if live.is_empty() && self.rng.chance(3, 4) {
            // nothing expandable: a fresh farm is the more useful step
            return self.gen_farm_create(c);
        }
        let from_live = !live.is_empty() && self.rng.chance(4, 5);
        let f = match if from_live { self.rng.pick_opt(&live) } else { self.rng.pick_opt(&c.obs.farms) } {
            Some(f) => f.clone(),
            None => return self.gen_farm_create(c),
        };
        let sender = if self.rng.chance(1, 6) { self.any_sender(c) } else { f.owner.to_string() };
        let rate = f.emission_rate.u128().max(1);
        let k = self.rng.range(1, 6) as u128;
        let amount = match self.rng.below(8) {
            0 => rate * k + 1,
            1 => 1,
            _ => rate * k,
        };
        let denom = if self.rng.chance(1, 25) { "wbtc".to_string() } else { f.farm_asset.denom.clone() };
        let funds = match self.rng.below(15) {
            0 => vec![],
            1 => vec![coin(amount + 1, denom.clone())],
            2 => vec![coin(amount, denom.clone()), coin(1, "uusdt")],
            // attached and declared amounts differ, both multiples of the emission rate
            3 => vec![coin(rate * (k + self.rng.range(1, 4) as u128), denom.clone())],
            4 if k > 1 => vec![coin(rate * (k - 1), denom.clone())],
            _ => vec![coin(amount, denom.clone())],
        };
        Op::Fm {
            sender,
            msg: FmMsg::ManageFarm {
                action: FarmAction::Expand {
                    params: FarmParams {
                        lp_denom: f.lp_denom.clone(),
                        start_epoch: None,
                        preliminary_end_epoch: None,
                        curve: None,
                        farm_asset: coin(amount, denom),
                        farm_identifier: Some(self.ident(&f.identifier)),
                    },
                },
            },
            funds,
        }
    }

    fn gen_farm_close(&mut self, c: &SimCore) -> Op {
        let f = match self.rng.pick_opt(&c.obs.farms) {
            Some(f) => f.clone(),
            None => return self.gen_farm_create(c),
        };
        let sender = match self.rng.below(8) {
            0 => self.any_sender(c),
            1 | 2 => c.w.a.owner.to_string(),
            _ => f.owner.to_string(),
        };
        Op::Fm {
            sender,
            msg: FmMsg::ManageFarm { action: FarmAction::Close { farm_identifier: self.ident(&f.identifier) } },
            funds: if self.rng.chance(1, 30) { vec![coin(1, "uom")] } else { vec![] },
        }
    }

    fn gen_pos_create(&mut self, c: &SimCore) -> Op {
        let sender = self.user(c);
        // LP denoms the sender holds
        let lps = Self::lp_denoms(c);
        let held: Vec<(String, u128)> = lps
            .iter()
            .map(|l| (l.clone(), bal(&c.obs.bal, &sender, l)))
            .filter(|(_, b)| *b > 0)
            .collect();
        let (lp, b) = match self.rng.pick_opt(&held) {
            Some(x) => x.clone(),
            None => {
                if self.rng.chance(1, 3) {
                    ("uom".to_string(), 1000)
                } else {
                    let lk = self.rng.chance(1, 2);
                    return self.gen_provide(c, false, lk);
                }
            }
        };
        let amt = match self.rng.below(8) {
            0 => 1,
            1 => self.rng.range(1, 50) as u128,
            2 => b,
            _ => self.rng.log_u128(b.max(1)),
        }
        .min(b.max(1));
        let identifier = match self.rng.below(8) {
            0..=3 => None,
            4 if !c.obs.positions.is_empty() => {
                let id = self.rng.pick(&c.obs.positions).identifier.clone();
                Some(id.trim_start_matches("u-").to_string())
            }
            5 => Some(format!("p-{}", self.rng.range(1, 4))),
            _ => Some(self.uid("P")),
        };
        let receiver = match self.rng.below(10) {
            0 => Some(sender.clone()),
            1 => Some(self.user(c)),
            _ => None,
        };
        Op::Fm {
            sender,
            msg: FmMsg::ManagePosition {
                action: PositionAction::Create { identifier, unlocking_duration: self.unlock_duration(c), receiver },
            },
            funds: vec![coin(amt, lp)],
        }
    }

    /// next step of the weight-churn scenario; None when it cannot continue
    fn gen_churn(&mut self, c: &SimCore) -> Option<(Op, u64)> {
        let (who, lp, left, phase) = self.churn.clone()?;
        let dur = c.w.cfg.epoch_duration;
        let now = c.w.now();
        let gen = c.w.genesis();
        // to the start of the next epoch (+ a little)
        let to_next = if now < gen { gen - now } else { dur - ((now - gen) % dur) } + self.rng.below(5);
        let mine: Vec<mantra_dex_std::farm_manager::Position> =
            c.obs.positions.iter().filter(|p| p.open && p.receiver.as_str() == who && p.lp_asset.denom == lp).cloned().collect();
        let b = bal(&c.obs.bal, &who, &lp);
        match phase {
            0 => {
                if left == 0 || b < 2 {
                    self.churn = Some((who, lp, 0, 1));
                    return self.gen_churn(c);
                }
                self.churn = Some((who.clone(), lp.clone(), left - 1, 0));
                let amt = (b / 40).max(1);
                let op = match mine.first() {
                    Some(p) if !self.rng.chance(1, 6) => Op::Fm {
                        sender: who,
                        msg: FmMsg::ManagePosition { action: PositionAction::Expand { identifier: p.identifier.clone() } },
                        funds: vec![coin(amt, lp)],
                    },
                    _ => Op::Fm {
                        sender: who,
                        msg: FmMsg::ManagePosition {
                            action: PositionAction::Create { identifier: None, unlocking_duration: c.w.cfg.farm.min_unlocking_duration, receiver: None },
                        },
                        funds: vec![coin(amt, lp)],
                    },
                };
                Some((op, to_next))
            }
            1 => match mine.first() {
                // leave the LP token: close every open position
                Some(p) => Some((
                    Op::Fm {
                        sender: who,
                        msg: FmMsg::ManagePosition { action: PositionAction::Close { identifier: p.identifier.clone(), lp_asset: None } },
                        funds: vec![],
                    },
                    if self.rng.chance(1, 3) { to_next } else { 0 },
                )),
                None => {
                    self.churn = Some((who, lp, 0, 2));
                    self.gen_churn(c)
                }
            },
            2 => {
                self.churn = Some((who.clone(), lp.clone(), 0, 3));
                if b == 0 {
                    self.churn = None;
                    return None;
                }
                Some((
                    Op::Fm {
                        sender: who,
                        msg: FmMsg::ManagePosition {
                            action: PositionAction::Create { identifier: None, unlocking_duration: c.w.cfg.farm.min_unlocking_duration, receiver: None },
                        },
                        funds: vec![coin((b / 2).max(1), lp)],
                    },
                    to_next,
                ))
            }
            _ => {
                self.churn = None;
                Some((Op::Fm { sender: who, msg: FmMsg::Claim { until_epoch: None }, funds: vec![] }, to_next + dur))
            }
        }
    }

    /// one more open position for the hoarder: a direct creation while below the limit, a locked
    /// deposit through the pool manager at / above it (or at random)
    fn gen_hoard(&mut self, c: &SimCore) -> Option<Op> {
        let lps = Self::lp_denoms(c);
        if self.hoarder.is_none() {
            let mut best: Option<(u128, String)> = None;
            for u in c.w.a.users.iter() {
                let t: u128 = lps.iter().map(|l| bal(&c.obs.bal, u.as_str(), l)).sum();
                if t > 0 && best.as_ref().map(|(b, _)| t > *b).unwrap_or(true) {
                    best = Some((t, u.to_string()));
                }
            }
            self.hoarder = best.map(|(_, u)| u);
        }
        let who = self.hoarder.clone()?;
        let n_open = c.obs.positions.iter().filter(|p| p.open && p.receiver.as_str() == who).count();
        let f = &c.w.cfg.farm;
        let dur = self.rng.range(f.min_unlocking_duration, f.max_unlocking_duration.max(f.min_unlocking_duration));
        let held: Vec<(String, u128)> = lps.iter().map(|l| (l.clone(), bal(&c.obs.bal, &who, l))).filter(|(_, b)| *b >= 40).collect();
        if (n_open < 10 || self.rng.chance(1, 3)) && !held.is_empty() {
            let (lp, b) = self.rng.pick(&held).clone();
            return Some(Op::Fm {
                sender: who,
                msg: FmMsg::ManagePosition { action: PositionAction::Create { identifier: None, unlocking_duration: dur, receiver: None } },
                funds: vec![coin((b / 40).max(1), lp)],
            });
        }
        // through the pool manager: a small deposit in pool proportion, locked
        let funded: Vec<&PoolInfoResponse> =
            c.obs.pools.iter().filter(|p| !p.total_share.amount.is_zero() && p.pool_info.assets.iter().all(|a| a.amount.u128() >= 1000)).collect();
        let without: Vec<&&PoolInfoResponse> =
            funded.iter().filter(|p| !c.obs.positions.iter().any(|q| q.receiver.as_str() == who && q.lp_asset.denom == p.pool_info.lp_denom)).collect();
        let p = if !without.is_empty() && self.rng.chance(2, 3) { **self.rng.pick(&without) } else { *self.rng.pick_opt(&funded)? };
        let mut funds: Vec<Coin> = p.pool_info.assets.iter().map(|a| coin((a.amount.u128() / 1000).max(1), a.denom.clone())).collect();
        funds.sort_by(|a, b| a.denom.cmp(&b.denom));
        Some(Op::Pm {
            sender: who,
            msg: PmMsg::ProvideLiquidity {
                liquidity_max_slippage: None,
                swap_max_slippage: None,
                receiver: None,
                pool_identifier: p.pool_info.pool_identifier.clone(),
                unlocking_duration: Some(dur),
                lock_position_identifier: None,
            },
            funds,
        })
    }

    fn pick_position(&mut self, c: &SimCore, open: Option<bool>) -> Option<mantra_dex_std::farm_manager::Position> {
        let v: Vec<&mantra_dex_std::farm_manager::Position> =
            c.obs.positions.iter().filter(|p| open.map(|o| p.open == o).unwrap_or(true)).collect();
        self.rng.pick_opt(&v).map(|p| (*p).clone())
    }

    fn pos_sender(&mut self, c: &SimCore, p: &mantra_dex_std::farm_manager::Position, allow_pm: bool) -> String {
        match self.rng.below(14) {
            0 => self.user(c),
            1 if self.rng.chance(1, 2) => c.w.a.owner.to_string(),
            // the pool manager's address as a plain sender: the only delegate the farm manager trusts
            // (never with funds: the real contract only spends what its code says)
            2 if allow_pm && self.rng.chance(1, 2) => c.w.a.pm.to_string(),
            _ => p.receiver.to_string(),
        }
    }

    fn gen_pos_expand(&mut self, c: &SimCore) -> Op {
        let sel = if self.rng.chance(1, 10) { None } else { Some(true) };
        let p = match self.pick_position(c, sel) {
            Some(p) => p,
            None => return self.gen_pos_create(c),
        };
        let sender = self.pos_sender(c, &p, false);
        let b = bal(&c.obs.bal, &sender, &p.lp_asset.denom);
        let amt = if b == 0 { 5 } else { self.rng.log_u128(b) };
        Op::Fm {
            sender,
            msg: FmMsg::ManagePosition { action: PositionAction::Expand { identifier: self.ident(&p.identifier) } },
            funds: vec![coin(amt, p.lp_asset.denom.clone())],
        }
    }

    fn gen_pos_close(&mut self, c: &SimCore) -> Op {
        let sel = if self.rng.chance(1, 10) { None } else { Some(true) };
        let p = match self.pick_position(c, sel) {
            Some(p) => p,
            None => return self.gen_pos_create(c),
        };
        let sender = self.pos_sender(c, &p, true);
        let a = p.lp_asset.amount.u128();
        let lp_asset = match self.rng.below(8) {
            0..=2 => None,
            3 => Some(coin(a, p.lp_asset.denom.clone())),
            4 => Some(coin(a + 1, p.lp_asset.denom.clone())),
            5 if self.rng.chance(1, 4) => Some(coin(1, "uom")),
            6 if self.rng.chance(1, 4) => Some(coin(0, p.lp_asset.denom.clone())),
            _ => Some(coin(self.rng.log_u128(a.max(1)).min(a.max(1)), p.lp_asset.denom.clone())),
        };
        Op::Fm {
            sender,
            msg: FmMsg::ManagePosition { action: PositionAction::Close { identifier: self.ident(&p.identifier), lp_asset } },
            funds: vec![],
        }
    }

    fn gen_pos_withdraw(&mut self, c: &SimCore, emergency: bool) -> Op {
        let want_open = if emergency { if self.rng.chance(1, 2) { Some(true) } else { Some(false) } } else { Some(false) };
        let sel = if self.rng.chance(1, 8) { None } else { want_open };
        let p = match self
            .pick_position(c, sel)
            .or_else(|| self.pick_position(c, None))
        {
            Some(p) => p,
            None => return self.gen_pos_create(c),
        };
        let sender = self.pos_sender(c, &p, true);
        let emergency_unlock = if emergency {
            Some(true)
        } else {
            match self.rng.below(4) {
                0 => Some(false),
                _ => None,
            }
        };
        Op::Fm {
            sender,
            msg: FmMsg::ManagePosition {
                action: PositionAction::Withdraw { identifier: self.ident(&p.identifier), emergency_unlock },
            },
            funds: vec![],
        }
    }

    fn gen_claim(&mut self, c: &SimCore) -> Op {
        // prefer users with open positions
        let with_open: Vec<String> = c
            .obs
            .positions
            .iter()
            .filter(|p| p.open)
            .map(|p| p.receiver.to_string())
            .collect();
        let sender = match self.rng.pick_opt(&with_open) {
            Some(s) if !self.rng.chance(1, 15) => s.clone(),
            _ => self.user(c),
        };
        let cur = self.exec_epoch(c);
        let last = c.obs.last_claimed.get(&sender).copied();
        let until_epoch = match self.rng.below(10) {
            0..=4 => None,
            5 => Some(cur),
            6 => Some(cur + 1),
            7 => last,
            8 => Some(last.unwrap_or(0).saturating_sub(1)),
            _ => {
                // anything from well before the cursor to now
                let lo = last.unwrap_or(cur.saturating_sub(6));
                Some(self.rng.range(lo.min(cur), cur))
            }
        };
        Op::Fm {
            sender,
            msg: FmMsg::Claim { until_epoch },
            funds: if self.rng.chance(1, 40) { vec![coin(1, "uom")] } else { vec![] },
        }
    }

    fn gen_fm_cfg(&mut self, c: &SimCore) -> Op {
        let sender = if self.rng.chance(1, 6) { self.user(c) } else { c.w.a.owner.to_string() };
        let cur = c.w.fm_config();
        let mut m = FmMsg::UpdateConfig {
            fee_collector_addr: None,
            epoch_manager_addr: None,
            pool_manager_addr: None,
            create_farm_fee: None,
            max_concurrent_farms: None,
            max_farm_epoch_buffer: None,
            min_unlocking_duration: None,
            max_unlocking_duration: None,
            farm_expiration_time: None,
            emergency_unlock_penalty: None,
        };
        if let FmMsg::UpdateConfig {
            fee_collector_addr,
            create_farm_fee,
            max_concurrent_farms,
            max_farm_epoch_buffer,
            min_unlocking_duration,
            max_unlocking_duration,
            farm_expiration_time,
            emergency_unlock_penalty,
            ..
        } = &mut m
        {
            match self.rng.below(8) {
                0 => {
                    *fee_collector_addr =
                        Some(self.rng.pick(&[c.w.a.fc.clone(), c.w.a.fc2.clone(), c.w.a.alt[1].clone()]).to_string())
                }
                1 => {
                    *create_farm_fee = Some(match self.rng.below(5) {
                        0 => coin(0, "uom"),
                        1 => coin(0, "uusdt"),
                        2 => coin(1000, "uom"),
                        3 => coin(444, "uusdc"),
                        _ => coin(3, "wbtc"),
                    })
                }
                2 => {
                    *max_concurrent_farms = Some(match self.rng.below(3) {
                        0 => cur.max_concurrent_farms.saturating_sub(1),
                        1 => cur.max_concurrent_farms,
                        _ => cur.max_concurrent_farms + 1,
                    })
                }
                3 => *max_farm_epoch_buffer = Some(*self.rng.pick(&[0u32, 1, 5, 14, 40])),
                4 => *min_unlocking_duration = Some(*self.rng.pick(&[DAY, 2 * DAY, YEAR + 1, 0])),
                5 => *max_unlocking_duration = Some(*self.rng.pick(&[DAY, 100 * DAY, YEAR, DAY - 1])),
                6 => *farm_expiration_time = Some(*self.rng.pick(&[MONTH, MONTH - 1, 3 * MONTH])),
                _ => *emergency_unlock_penalty = Some(dec(*self.rng.pick(&["0", "0.05", "0.3", "1", "1.01"]))),
            }
        }
        Op::Fm { sender, msg: m, funds: vec![] }
    }

    fn gen_ownership(&mut self, c: &SimCore) -> Op {
        use cw_ownable::Action;
        let who = [c.w.a.owner.clone(), c.w.a.owner2.clone(), c.w.a.stranger.clone(), c.w.a.users[0].clone()];
        let sender = self.rng.pick(&who).to_string();
        let action = match self.rng.below(8) {
            0..=3 => Action::TransferOwnership {
                new_owner: self.rng.pick(&who).to_string(),
                expiry: match self.rng.below(3) {
                    0 => None,
                    1 => Some(cw_utils::Expiration::AtTime(cosmwasm_std::Timestamp::from_seconds(
                        c.w.now() + self.rng.range(1, 3 * DAY),
                    ))),
                    _ => Some(cw_utils::Expiration::AtHeight(c.w.app.block_info().height + self.rng.range(1, 5))),
                },
            },
            4..=6 => Action::AcceptOwnership,
            _ => {
                if self.rng.chance(1, 4) {
                    Action::RenounceOwnership
                } else {
                    Action::AcceptOwnership
                }
            }
        };
        let funds = if self.rng.chance(1, 15) { vec![coin(1, "uom")] } else { vec![] };
        match self.rng.below(4) {
            0 => Op::Pm { sender, msg: PmMsg::UpdateOwnership(action), funds },
            1 => Op::Fm { sender, msg: FmMsg::UpdateOwnership(action), funds },
            2 => Op::Em { sender, msg: mantra_dex_std::epoch_manager::ExecuteMsg::UpdateOwnership(action), funds },
            _ => Op::Fc {
                sender,
                which: self.rng.below(2) as u8,
                msg: mantra_dex_std::fee_collector::ExecuteMsg::UpdateOwnership(action),
                funds,
            },
        }
    }

    fn gen_em_cfg(&mut self, c: &SimCore) -> Op {
        let sender = if self.rng.chance(1, 5) { self.user(c) } else { c.w.a.owner.to_string() };
        let now = c.w.now();
        let epoch_config = match self.rng.below(6) {
            0 => None,
            _ => Some(mantra_dex_std::epoch_manager::EpochConfig {
                duration: (*self.rng.pick(&[DAY, DAY - 1, 2 * DAY, 100_000])).into(),
                genesis_epoch: match self.rng.below(4) {
                    0 => now.saturating_sub(1),
                    1 => now,
                    2 => now.saturating_add(1),
                    _ => now.saturating_add(self.rng.range(1, 2 * DAY)),
                }
                .into(),
            }),
        };
        Op::Em { sender, msg: mantra_dex_std::epoch_manager::ExecuteMsg::UpdateConfig { epoch_config }, funds: vec![] }
    }

    fn gen_epoch_new(&mut self, c: &SimCore) -> Op {
        let now = c.w.now();
        let max_s = u64::MAX / 1_000_000_000;
        let genesis = match self.rng.below(10) {
            0 => now.saturating_sub(1),
            1 => now,
            2 => now.saturating_add(1),
            3 => now.saturating_add(self.rng.range(1, 10 * DAY)),
            4 => max_s - self.rng.range(0, 3 * DAY),
            5 => max_s + self.rng.range(1, 100),
            6 => u64::MAX - self.rng.range(0, 100),
            _ => now.saturating_add(self.rng.range(0, 3 * DAY)),
        };
        let duration = match self.rng.below(12) {
            0 => DAY - 1,
            1 | 2 | 3 => DAY,
            4 => DAY + 1,
            5 => 100_000,
            6 => 1u64 << self.rng.range(17, 40),
            7 => (1u64 << 62) + self.rng.range(0, 5),
            8 => u64::MAX / 2 + self.rng.range(0, 3),
            9 => u64::MAX - self.rng.range(0, 3),
            10 => 0,
            _ => self.rng.range(DAY, 30 * DAY),
        };
        Op::EpochNew { genesis, duration }
    }

    /// clock moves for the epoch profile: onto boundaries of the probed epoch manager, small and
    /// very large multiples, and jumps towards the end of representable time
    fn gen_epoch_dt(&mut self, c: &SimCore) -> u64 {
        let now = c.w.now();
        let em = c.probe_em.clone();
        let cfg = c.w.em_config(&em).epoch_config;
        let (g, d) = (cfg.genesis_epoch.u64(), cfg.duration.u64().max(1));
        let max_s = u64::MAX / 1_000_000_000;
        let target = match self.rng.below(12) {
            0..=4 => {
                // next boundaries -1/0/+1
                let k = if now >= g { ((now - g) / d).saturating_add(1) } else { 0 };
                let k = k.saturating_add(match self.rng.below(6) { 0 => 1, 1 => self.rng.range(2, 50), _ => 0 });
                let b = g.saturating_add(k.saturating_mul(d));
                b.saturating_add(self.rng.below(3)).saturating_sub(1)
            }
            5 => now.saturating_add(self.rng.range(1, 3600)),
            6 => now.saturating_add(self.rng.range(1, d.min(40 * DAY))),
            7 if self.rng.chance(1, 6) => max_s - self.rng.range(0, 5 * DAY),
            8 if self.rng.chance(1, 4) => now.saturating_add(self.rng.range(YEAR, 50 * YEAR)),
            _ => now,
        };
        target.min(max_s).saturating_sub(now)
    }

    fn gen_freeze(&mut self, c: &SimCore) -> Op {
        let cur = crate::seams::get_frozen();
        if !cur.is_empty() && self.rng.chance(2, 3) {
            let (d, r) = self.rng.pick(&cur).clone();
            return Op::Freeze { denom: d, recipient: r, on: false };
        }
        // freeze a farm's reward denom for its owner (the case the code defends against)
        if let Some(f) = self.rng.pick_opt(&c.obs.farms) {
            return Op::Freeze { denom: f.farm_asset.denom.clone(), recipient: f.owner.to_string(), on: true };
        }
        Op::Noop
    }

    // ------------------------------------------------------------------------------------- drain
    /// End-of-run drain, faults off: (0) unfreeze, re-enable every switch; (1) jump past every
    /// unlock; (2) every user with an open position claims; (3) close every open position;
    /// (4) jump past the new unlocks; (5) claim again, withdraw closed positions, close farms,
    /// redeem LP - random order, each action tried once.
    fn gen_drain(&mut self, c: &SimCore) -> Option<Step> {
        loop {
            match self.drain_phase {
                0 => {
                    let frozen = crate::seams::get_frozen();
                    if let Some((d, r)) = frozen.first() {
                        return Some(Step { dt: 0, op: Op::Freeze { denom: d.clone(), recipient: r.clone(), on: false }, fault: None });
                    }
                    for p in c.obs.pools.iter() {
                        let st = &p.pool_info.status;
                        if !(st.swaps_enabled && st.deposits_enabled && st.withdrawals_enabled) {
                            let key = format!("enable:{}", p.pool_info.pool_identifier);
                            if self.drain_tried.insert(key) {
                                return Some(Step {
                                    dt: 0,
                                    op: Op::Pm {
                                        sender: c.w.ownership(&c.w.a.pm).owner.map(|a| a.to_string()).unwrap_or(c.w.a.owner.to_string()),
                                        msg: PmMsg::UpdateConfig {
                                            fee_collector_addr: None,
                                            farm_manager_addr: None,
                                            pool_creation_fee: None,
                                            feature_toggle: Some(FeatureToggle {
                                                pool_identifier: p.pool_info.pool_identifier.clone(),
                                                withdrawals_enabled: Some(true),
                                                deposits_enabled: Some(true),
                                                swaps_enabled: Some(true),
                                            }),
                                        },
                                        funds: vec![],
                                    },
                                    fault: None,
                                });
                            }
                        }
                    }
                    self.drain_phase = 1;
                }
                1 => {
                    self.drain_phase = 2;
                    return Some(Step { dt: YEAR + MONTH, op: Op::Noop, fault: None });
                }
                2 | 5 => {
                    // claims (phase 2), then everything else (phase 5)
                    let now = c.w.now();
                    let mut cands: Vec<(String, Op)> = vec![];
                    let mut owners: Vec<String> =
                        c.obs.positions.iter().filter(|p| p.open).map(|p| p.receiver.to_string()).collect();
                    owners.sort();
                    owners.dedup();
                    for o in owners {
                        cands.push((
                            format!("claim{}:{}", self.drain_phase, o),
                            Op::Fm { sender: o, msg: FmMsg::Claim { until_epoch: None }, funds: vec![] },
                        ));
                    }
                    if self.drain_phase == 5 {
                        for p in c.obs.positions.iter() {
                            if !p.open && p.expiring_at.map(|e| e <= now).unwrap_or(false) {
                                cands.push((
                                    format!("wd:{}", p.identifier),
                                    Op::Fm {
                                        sender: p.receiver.to_string(),
                                        msg: FmMsg::ManagePosition {
                                            action: PositionAction::Withdraw { identifier: p.identifier.clone(), emergency_unlock: None },
                                        },
                                        funds: vec![],
                                    },
                                ));
                            }
                        }
                        for f in c.obs.farms.iter() {
                            cands.push((
                                format!("fc:{}", f.identifier),
                                Op::Fm {
                                    sender: f.owner.to_string(),
                                    msg: FmMsg::ManageFarm { action: FarmAction::Close { farm_identifier: f.identifier.clone() } },
                                    funds: vec![],
                                },
                            ));
                        }
                        for p in c.obs.pools.iter() {
                            for (h, b) in Self::lp_holders(c, &p.pool_info.lp_denom) {
                                cands.push((
                                    format!("lp:{}:{}", p.pool_info.pool_identifier, h),
                                    Op::Pm {
                                        sender: h,
                                        msg: PmMsg::WithdrawLiquidity { pool_identifier: p.pool_info.pool_identifier.clone() },
                                        funds: vec![coin(b, p.pool_info.lp_denom.clone())],
                                    },
                                ));
                            }
                        }
                    }
                    cands.retain(|(k, _)| !self.drain_tried.contains(k));
                    if cands.is_empty() {
                        if self.drain_phase == 2 {
                            self.drain_phase = 3;
                            continue;
                        }
                        return None;
                    }
                    let i = self.rng.below(cands.len() as u64) as usize;
                    let (k, op) = cands.swap_remove(i);
                    self.drain_tried.insert(k);
                    return Some(Step { dt: 0, op, fault: None });
                }
                3 => {
                    let mut cands: Vec<(String, Op)> = vec![];
                    for p in c.obs.positions.iter().filter(|p| p.open) {
                        cands.push((
                            format!("close:{}", p.identifier),
                            Op::Fm {
                                sender: p.receiver.to_string(),
                                msg: FmMsg::ManagePosition {
                                    action: PositionAction::Close { identifier: p.identifier.clone(), lp_asset: None },
                                },
                                funds: vec![],
                            },
                        ));
                    }
                    cands.retain(|(k, _)| !self.drain_tried.contains(k));
                    if cands.is_empty() {
                        self.drain_phase = 4;
                        continue;
                    }
                    let i = self.rng.below(cands.len() as u64) as usize;
                    let (k, op) = cands.swap_remove(i);
                    self.drain_tried.insert(k);
                    return Some(Step { dt: 0, op, fault: None });
                }
                4 => {
                    self.drain_phase = 5;
                    return Some(Step { dt: YEAR + MONTH, op: Op::Noop, fault: None });
                }
                _ => return None,
            }
        }
    }

    // ------------------------------------------------------------------------------------- main
    pub fn next_step(&mut self, c: &mut SimCore) -> Option<Step> {
        if self.emitted >= self.total_steps {
            if !self.prof.drain {
                return None;
            }
            self.draining = true;
            let r = self.gen_drain(c);
            if r.is_none() {
                self.draining = false;
                self.prof.drain = false;
            }
            return r;
        }
        self.emitted += 1;
        let dt = if self.prof.name == "epoch" { self.gen_epoch_dt(c) } else { self.gen_dt(c) };
        self.step_dt = dt;
        // setup phase: make sure there are pools with liquidity
        let heavy = c.w.cfg.farm.max_concurrent_farms > 10;
        if heavy && !self.burst_done && self.emitted > self.prof.setup_steps && !c.obs.pools.is_empty() && self.prof.w.contains_key("farm_create") {
            self.burst_done = true;
            if std::env::var("VERIF_DEBUG_BURST").is_ok() { eprintln!("burst candidate at step {}", self.emitted); }
            if self.rng.chance(3, 4) {
                self.burst_left = self.rng.range(10, 14) as u32;
            }
        }
        let (op, dt) = if self.burst_left > 0 {
            self.burst_left -= 1;
            let bdt = dt.min(self.rng.range(0, 30));
            self.step_dt = bdt;
            let op = match self.gen_farm_burst(c) {
                Some(op) => op,
                None => self.gen_any(c),
            };
            (op, bdt)
        } else {
            (Op::Noop, dt)
        };
        // weight churn (an eighth of the runs that create positions at all), once a user has an
        // open position and LP to spare
        if !self.churn_done && self.burst_left == 0 && self.hoard_left == 0 && self.emitted > self.prof.setup_steps + 4 && self.prof.w.contains_key("pos_create") {
            let cands: Vec<(String, String)> = c
                .obs
                .positions
                .iter()
                .filter(|p| p.open && bal(&c.obs.bal, p.receiver.as_str(), &p.lp_asset.denom) >= 40)
                .map(|p| (p.receiver.to_string(), p.lp_asset.denom.clone()))
                .collect();
            if !cands.is_empty() {
                self.churn_done = true;
                if self.rng.chance(1, 8) {
                    let (u, l) = self.rng.pick(&cands).clone();
                    self.churn = Some((u, l, self.rng.range(10, 13) as u32, 0));
                }
            }
        }
        let (op, dt) = if matches!(op, Op::Noop) && self.churn.is_some() && !self.rng.chance(1, 5) {
            match self.gen_churn(c) {
                Some((op, cdt)) => {
                    self.step_dt = cdt;
                    (op, cdt)
                }
                None => (Op::Noop, dt),
            }
        } else {
            (op, dt)
        };
        // position hoarding (a sixth of the runs that create positions at all)
        if !self.hoard_done && self.burst_left == 0 && self.emitted > self.prof.setup_steps + 2 && self.prof.w.contains_key("pos_create") && !c.obs.pools.is_empty() {
            self.hoard_done = true;
            if self.rng.chance(1, 6) {
                self.hoard_left = self.rng.range(11, 15) as u32;
            }
        }
        let (op, dt) = if matches!(op, Op::Noop) && self.hoard_left == 0 && self.hoard_close_left > 0 && !self.rng.chance(1, 4) {
            self.hoard_close_left -= 1;
            let who = self.hoarder.clone().unwrap_or_default();
            let open: Vec<&mantra_dex_std::farm_manager::Position> = c.obs.positions.iter().filter(|p| p.open && p.receiver.as_str() == who).collect();
            match self.rng.pick_opt(&open) {
                Some(p) => {
                    let hdt = dt.min(self.rng.range(0, 600));
                    self.step_dt = hdt;
                    (
                        Op::Fm {
                            sender: who,
                            msg: FmMsg::ManagePosition { action: PositionAction::Close { identifier: p.identifier.clone(), lp_asset: None } },
                            funds: vec![],
                        },
                        hdt,
                    )
                }
                None => {
                    self.hoard_close_left = 0;
                    (Op::Noop, dt)
                }
            }
        } else {
            (op, dt)
        };
        let (op, dt) = if matches!(op, Op::Noop) && self.hoard_left > 0 {
            self.hoard_left -= 1;
            if self.hoard_left == 0 && self.rng.chance(1, 2) {
                self.hoard_close_left = self.rng.range(10, 16) as u32;
            }
            let hdt = dt.min(self.rng.range(0, 3600));
            self.step_dt = hdt;
            match self.gen_hoard(c) {
                Some(op) => (op, hdt),
                None => (Op::Noop, dt),
            }
        } else {
            (op, dt)
        };
        let bursting = !matches!(op, Op::Noop);
        let op = if bursting {
            op
        } else if self.emitted <= self.prof.setup_steps || (self.pool_rich && self.emitted <= 18) {
            let unfunded = c.obs.pools.iter().any(|p| p.total_share.amount.is_zero());
            let more = self.pool_rich && c.obs.pools.len() < 6 && self.rng.chance(1, 2);
            if c.obs.pools.is_empty() || (self.emitted <= 2 && c.obs.pools.len() < 2) || more {
                self.gen_create_pool(c)
            } else if unfunded || self.rng.chance(1, 2) {
                self.gen_provide(c, false, false)
            } else {
                self.gen_any(c)
            }
        } else {
            self.gen_any(c)
        };
        // transport faults: the same signed message delivered twice in a row (duplicate), or a
        // message from a few steps ago delivered again now (delayed / reordered delivery)
        let (op, dt) = if !bursting && self.emitted > self.prof.setup_steps && !self.recent.is_empty() && self.prof.name != "epoch" && self.prof.name != "audit" && self.rng.chance(1, 20) {
            if self.rng.chance(1, 2) {
                c.stats.bump("fault.transport.duplicate_delivery");
                (self.recent.last().unwrap().clone(), if self.rng.chance(2, 3) { 0 } else { dt })
            } else {
                c.stats.bump("fault.transport.delayed_delivery");
                (self.rng.pick(&self.recent).clone(), dt)
            }
        } else {
            (op, dt)
        };
        if matches!(op, Op::Pm { .. } | Op::Fm { .. }) {
            self.recent.push(op.clone());
            if self.recent.len() > 8 {
                self.recent.remove(0);
            }
        }
        // sampled fault: dry-run on a fork, pick one internal call by content
        let mut fault = None;
        if self.prof.fault_pct > 0 && self.rng.chance(self.prof.fault_pct, 100) {
            let snap = c.fork();
            c.w.advance(dt);
            let out = c.exec_op(&op, None);
            c.w.restore(&snap);
            let mut calls = out.report.calls.clone();
            calls.sort();
            if !calls.is_empty() {
                let pick = self.rng.pick(&calls).clone();
                // nth occurrence among identical calls: choose the first
                fault = Some(FaultSpec { kind: pick.kind, sig: pick.sig, nth: 0 });
                let _ = CallKind::BankSend;
            }
        }
        Some(Step { dt, op, fault })
    }

    fn gen_any(&mut self, c: &SimCore) -> Op {
        let kinds: Vec<(&'static str, u32)> = self
            .prof
            .w
            .iter()
            .filter(|(k, _)| !self.disabled.contains(k))
            .map(|(k, v)| (*k, *v))
            .collect();
        let heavy = c.w.cfg.farm.max_concurrent_farms > 10;
        let weights: Vec<u32> = kinds.iter().map(|(k, w)| if heavy && *k == "farm_create" { *w * 4 } else { *w }).collect();
        if kinds.is_empty() {
            return Op::Noop;
        }
        let k = kinds[self.rng.weighted(&weights)].0;
        match k {
            "create_pool" => self.gen_create_pool(c),
            "provide" => self.gen_provide(c, false, false),
            "provide_single" => {
                let locked = self.rng.chance(1, 5);
                self.gen_provide(c, true, locked)
            }
            "provide_locked" => {
                let single = self.rng.chance(1, 4);
                self.gen_provide(c, single, true)
            }
            "withdraw" => self.gen_withdraw(c),
            "swap" => self.gen_swap(c),
            "route" => self.gen_route(c),
            "donate" => self.gen_donate(c),
            "pm_cfg" => self.gen_pm_cfg(c),
            "toggle" => self.gen_toggle(c),
            "farm_create" => self.gen_farm_create(c),
            "farm_expand" => self.gen_farm_expand(c),
            "farm_close" => self.gen_farm_close(c),
            "pos_create" => self.gen_pos_create(c),
            "pos_expand" => self.gen_pos_expand(c),
            "pos_close" => self.gen_pos_close(c),
            "pos_withdraw" => self.gen_pos_withdraw(c, false),
            "pos_emergency" => self.gen_pos_withdraw(c, true),
            "pos_misc" => match self.rng.below(4) {
                0 => self.gen_pos_create(c),
                1 => self.gen_pos_close(c),
                2 => self.gen_pos_withdraw(c, false),
                _ => self.gen_claim(c),
            },
            "claim" => self.gen_claim(c),
            "fm_cfg" => self.gen_fm_cfg(c),
            "ownership" => self.gen_ownership(c),
            "em_cfg" => self.gen_em_cfg(c),
            "freeze" => self.gen_freeze(c),
            "nanos" => Op::Nanos { ns: match self.rng.below(6) { 0 => 0, 1 => 1, 2 => 999_999_999, 3 => 500_000_000, _ => self.rng.below(1_000_000_000) } },
            "audit" => Op::Audit,
            "dry_claims" => Op::DryClaims,
            "epoch_probe" => Op::EpochProbe,
            "epoch_new" => self.gen_epoch_new(c),
            _ => Op::Noop,
        }
    }
}
