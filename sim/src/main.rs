mod evidence;
mod exact;
mod gen;
mod mon;
mod rng;
mod runner;
mod seams;
mod sim;
mod trace;
mod world;

use std::collections::BTreeSet;
use std::path::PathBuf;
use std::time::Instant;

use rayon::prelude::*;

use crate::runner::{minimise, replay, run_one, RunResult};
use crate::sim::Stats;
use crate::trace::Trace;

pub const DEFAULT_SEED: u64 = 20261002;

fn root() -> PathBuf {
    PathBuf::from(std::env::var("VERIF_ROOT").unwrap_or_else(|_| "/verif".to_string()))
}

fn seed_from_env() -> u64 {
    std::env::var("VERIF_SEED").ok().and_then(|s| s.trim().parse::<u64>().ok()).unwrap_or(DEFAULT_SEED)
}

fn threads() -> usize {
    std::env::var("VERIF_THREADS").ok().and_then(|s| s.parse().ok()).unwrap_or(16)
}

#[derive(serde::Deserialize, Clone, Debug)]
pub struct Finding {
    pub id: String,
    pub property: String,
    pub status: String,
    #[serde(default)]
    pub also_properties: Vec<String>,
    #[serde(default)]
    pub witness: Option<String>,
    #[serde(default)]
    pub what: String,
}

#[derive(serde::Deserialize, Clone, Debug, Default)]
pub struct Findings {
    #[serde(default)]
    pub findings: Vec<Finding>,
}

fn load_findings() -> Findings {
    let p = root().join("known_findings.json");
    match std::fs::read_to_string(&p) {
        Ok(s) => serde_json::from_str(&s).unwrap_or_else(|e| {
            eprintln!("harness error: cannot parse {}: {e}", p.display());
            std::process::exit(2);
        }),
        Err(_) => Findings::default(),
    }
}

fn open_keys(f: &Findings, prop: &str) -> BTreeSet<String> {
    f.findings
        .iter()
        .filter(|x| x.status == "open" && (x.property == prop || x.also_properties.iter().any(|p| p == prop)))
        .map(|x| x.id.clone())
        .collect()
}

fn cmd_check(prop: &str, tier: &str) -> i32 {
    let t0 = Instant::now();
    let seed = seed_from_env();
    println!("VERIF_SEED={seed} property={prop} tier={tier}");
    let findings = load_findings();
    let open = open_keys(&findings, prop);
    let mut exit = 0;

    // 1. witnesses of open findings: still failing => KNOWN-FINDING line; fixed => nothing
    let mut known_lines = vec![];
    for f in findings.findings.iter().filter(|f| f.property == prop && f.status == "open") {
        if let Some(w) = &f.witness {
            let path = root().join(w);
            let tr: Trace = match std::fs::read_to_string(&path).ok().and_then(|s| serde_json::from_str(&s).ok()) {
                Some(t) => t,
                None => {
                    eprintln!("harness error: cannot read witness {}", path.display());
                    return 2;
                }
            };
            // replay the witness with no finding suppressed
            let r = replay(&tr, &BTreeSet::new());
            match r.violation {
                // the witness still fails with this finding's matcher - or with the matcher of another
                // open finding of this property (their envelopes overlap on some states: a swap on a
                // degenerate pool can fall under S6's tolerance and under S9's definition): known
                Some(v) if v.finding.as_deref() == Some(f.id.as_str()) || v.finding.as_ref().map(|k| open.contains(k)).unwrap_or(false) => {
                    let line = format!("KNOWN-FINDING: property={} {} [{}]", prop, f.what, f.id);
                    println!("{line}");
                    known_lines.push(line);
                }
                Some(v) => {
                    // the witness now fails differently: that is a new violation
                    println!("witness {} fails with {} ({}) instead of finding {}", w, v.monitor, v.detail, f.id);
                    println!("VIOLATION property={} replay={}", prop, path.display());
                    exit = 1;
                }
                None => {}
            }
        }
    }

    let (nq, nt) = mon::budget(prop);
    let n = if tier == "thorough" { nt } else { nq };
    let n = std::env::var("VERIF_RUNS").ok().and_then(|s| s.parse().ok()).unwrap_or(n);
    let pool = rayon::ThreadPoolBuilder::new().num_threads(threads()).build().unwrap();
    let chunk: u64 = 512;
    let mut total = Stats::default();
    let mut runs = 0u64;
    let mut steps_total = 0u64;
    let mut first_violation: Option<RunResult> = None;
    let mut samples: Vec<serde_json::Value> = vec![];
    let mut violations = 0;
    let mut start = 0u64;
    while start < n {
        let end = (start + chunk).min(n);
        let results: Vec<RunResult> = pool.install(|| {
            (start..end)
                .into_par_iter()
                .map(|i| {
                    seams::install_panic_hook_once();
                    run_one(prop, rng::mix(seed, prop, i), &open, i < 3)
                })
                .collect()
        });
        for r in results {
            runs += 1;
            steps_total += r.nsteps as u64;
            total.merge(&r.stats);
            if !r.sample.is_empty() && samples.len() < 3 {
                samples.push(serde_json::json!({"seed": r.seed, "steps": r.sample}));
            }
            if r.violation.is_some() {
                violations += 1;
                if first_violation.is_none() {
                    first_violation = Some(r);
                }
            }
        }
        if first_violation.is_some() {
            break;
        }
        start = end;
    }

    if let Some(r) = first_violation {
        let (v, tr) = r.violation.unwrap();
        println!("violation candidate: seed={} monitor={} steps={} :: {}", r.seed, v.monitor, tr.steps.len(), v.detail);
        let min = minimise(&tr, &open);
        let dir = root().join("replays");
        std::fs::create_dir_all(&dir).ok();
        let path = dir.join(format!("{}-{}.json", prop, r.seed));
        std::fs::write(&path, serde_json::to_string_pretty(&min).unwrap()).unwrap();
        println!("minimised to {} steps: {}", min.steps.len(), min.detail);
        // replay in a fresh process; only an identical failure is reported as a violation
        let exe = std::env::current_exe().unwrap();
        let out = std::process::Command::new(exe).arg("replay").arg(&path).output();
        let same = match out {
            Ok(o) => {
                let s = String::from_utf8_lossy(&o.stdout).to_string();
                o.status.code() == Some(1) && s.contains(&format!("monitor={}", min.monitor))
            }
            Err(_) => false,
        };
        if same {
            println!("VIOLATION property={} replay={}", prop, path.display());
            exit = 1;
        } else {
            eprintln!("harness error: minimised trace does not reproduce in a fresh process ({})", path.display());
            return 2;
        }
    }

    let wall = t0.elapsed().as_secs_f64();
    evidence::write(prop, tier, seed, runs, steps_total, &total, samples, wall, violations, &known_lines);
    println!(
        "runs={} steps={} accepted={} rejected={} forks={} fault_points={} distinct={} sim_seconds={} wall={:.1}s known_hits={:?}",
        runs, total.steps, total.accepted, total.rejected, total.forks, total.fault_points, total.sigs.len(), total.sim_seconds, wall, total.known_hits
    );
    exit
}

fn cmd_replay(path: &str) -> i32 {
    let tr: Trace = match std::fs::read_to_string(path).ok().and_then(|s| serde_json::from_str(&s).ok()) {
        Some(t) => t,
        None => {
            eprintln!("harness error: cannot read {path}");
            return 2;
        }
    };
    let findings = load_findings();
    let open = if std::env::var("VERIF_NO_SUPPRESS").is_ok() { BTreeSet::new() } else { open_keys(&findings, &tr.property) };
    let r = replay(&tr, &open);
    println!("replayed {} steps, digest={:016x}", tr.steps.len(), r.digest);
    match r.violation {
        Some(v) => {
            println!("violated at step {}: monitor={} finding={:?} :: {}", r.failed_at, v.monitor, v.finding, v.detail);
            println!("VIOLATION property={} replay={}", tr.property, path);
            1
        }
        None => {
            println!("no violation (known_hits={:?})", r.stats.known_hits);
            0
        }
    }
}

/// Print one digest line per seed; the check script diffs two invocations (different processes,
/// different worker counts).
fn cmd_digests(prop: &str, n: u64) -> i32 {
    let seed = seed_from_env();
    let pool = rayon::ThreadPoolBuilder::new().num_threads(threads()).build().unwrap();
    let open = BTreeSet::new();
    let res: Vec<(u64, u64, usize, bool)> = pool.install(|| {
        (0..n)
            .into_par_iter()
            .map(|i| {
                seams::install_panic_hook_once();
                let r = run_one(prop, rng::mix(seed, prop, i), &open, false);
                (r.seed, r.digest, r.nsteps, r.violation.is_some())
            })
            .collect()
    });
    for (s, d, k, v) in res {
        println!("{s} {d:016x} {k} {v}");
    }
    0
}

fn cmd_one(prop: &str, seed: u64) -> i32 {
    let findings = load_findings();
    let open = open_keys(&findings, prop);
    let r = run_one(prop, seed, &open, true);
    for s in r.sample.iter() {
        println!("{s}");
    }
    println!("steps={} digest={:016x}", r.nsteps, r.digest);
    for (k, v) in r.stats.c.iter() {
        println!("  {k} = {v}");
    }
    if let Some((v, t)) = r.violation {
        println!("VIOLATION candidate monitor={} :: {}", v.monitor, v.detail);
        let p = format!("/tmp/dexsim-one-{}-{}.json", prop, seed);
        std::fs::write(&p, serde_json::to_string_pretty(&t).unwrap()).unwrap();
        println!("trace at {p}");
        return 1;
    }
    0
}

fn cmd_minimise(path: &str, out: &str) -> i32 {
    let tr: Trace = serde_json::from_str(&std::fs::read_to_string(path).unwrap()).unwrap();
    let m = minimise(&tr, &BTreeSet::new());
    std::fs::write(out, serde_json::to_string_pretty(&m).unwrap()).unwrap();
    println!("minimised {} -> {} steps: {} :: {}", tr.steps.len(), m.steps.len(), m.monitor, m.detail);
    0
}

fn main() {
    seams::install_panic_hook_once();
    let args: Vec<String> = std::env::args().collect();
    let code = match args.get(1).map(|s| s.as_str()) {
        Some("check") if args.len() >= 4 => cmd_check(&args[2], &args[3]),
        Some("replay") if args.len() >= 3 => cmd_replay(&args[2]),
        Some("digests") if args.len() >= 4 => cmd_digests(&args[2], args[3].parse().unwrap_or(100)),
        Some("one") if args.len() >= 4 => cmd_one(&args[2], args[3].parse().unwrap_or(1)),
        Some("minimise") if args.len() >= 4 => cmd_minimise(&args[2], &args[3]),
        _ => {
            eprintln!("usage: dexsim check <PROP> <quick|thorough> | replay <file> | digests <PROP> <n> | one <PROP> <seed> | minimise <in> <out>");
            2
        }
    };
    std::process::exit(code);
}
