//! The seams the simulator owns: storage, bank, token factory (stargate) and wasm dispatch.
//! Every internal call a contract makes passes through one of the wrappers below, where it is
//! recorded and where the fault plan of the current transaction may fail it.

use std::cell::RefCell;
use std::collections::BTreeMap;
use std::panic::{catch_unwind, AssertUnwindSafe};

use anyhow::{anyhow, Result as AnyResult};
use cosmwasm_std::{
    Addr, AnyMsg, Api, BankMsg, BankQuery, Binary, BlockInfo, CustomMsg, CustomQuery, Empty,
    GrpcQuery, Order, Querier, Record, Storage, WasmMsg, WasmQuery,
};
use cw_multi_test::{
    AppResponse, Bank, BankKeeper, BankSudo, Contract, ContractData, CosmosRouter, Module,
    Stargate, Wasm, WasmKeeper, WasmSudo,
};
use mantra_common_testing::multi_test::stargate_mock::StargateMock;
use serde::de::DeserializeOwned;
use serde::{Deserialize, Serialize};

// ------------------------------------------------------------------------------------------------
// storage

#[derive(Clone, Default, PartialEq, Eq, Debug)]
pub struct SimStorage {
    pub map: BTreeMap<Vec<u8>, Vec<u8>>,
}

impl Storage for SimStorage {
    fn get(&self, key: &[u8]) -> Option<Vec<u8>> {
        self.map.get(key).cloned()
    }
    fn set(&mut self, key: &[u8], value: &[u8]) {
        if value.is_empty() {
            panic!("SimStorage: empty value");
        }
        self.map.insert(key.to_vec(), value.to_vec());
    }
    fn remove(&mut self, key: &[u8]) {
        self.map.remove(key);
    }
    fn range<'a>(
        &'a self,
        start: Option<&[u8]>,
        end: Option<&[u8]>,
        order: Order,
    ) -> Box<dyn Iterator<Item = Record> + 'a> {
        use std::ops::Bound;
        let lo = match start {
            Some(s) => Bound::Included(s.to_vec()),
            None => Bound::Unbounded,
        };
        let hi = match end {
            Some(e) => Bound::Excluded(e.to_vec()),
            None => Bound::Unbounded,
        };
        if let (Some(s), Some(e)) = (start, end) {
            if s >= e {
                return Box::new(std::iter::empty());
            }
        }
        let it = self.map.range((lo, hi)).map(|(k, v)| (k.clone(), v.clone()));
        match order {
            Order::Ascending => Box::new(it),
            Order::Descending => Box::new(it.rev()),
        }
    }
}

// ------------------------------------------------------------------------------------------------
// fault control

#[derive(Clone, Copy, Debug, PartialEq, Eq, Hash, PartialOrd, Ord, Serialize, Deserialize)]
pub enum CallKind {
    BankSend,
    BankBurn,
    TfMint,
    TfBurn,
    TfCreateDenom,
    WasmExec,
    WasmQuery,
    BankQuery,
    TfQuery,
}

impl CallKind {
    pub fn name(&self) -> &'static str {
        match self {
            CallKind::BankSend => "bank_send_fail",
            CallKind::BankBurn => "bank_burn_fail",
            CallKind::TfMint => "tf_mint_fail",
            CallKind::TfBurn => "tf_burn_fail",
            CallKind::TfCreateDenom => "tf_create_denom_fail",
            CallKind::WasmExec => "wasm_exec_fail",
            CallKind::WasmQuery => "wasm_query_fail",
            CallKind::BankQuery => "bank_query_fail",
            CallKind::TfQuery => "tf_query_fail",
        }
    }
    pub fn is_query(&self) -> bool {
        matches!(self, CallKind::WasmQuery | CallKind::BankQuery | CallKind::TfQuery)
    }
}

#[derive(Clone, Debug, PartialEq, Eq, PartialOrd, Ord, Serialize, Deserialize)]
pub struct CallRec {
    pub kind: CallKind,
    pub sig: String,
}

/// A fault is addressed by content (kind + signature + n-th occurrence of that content within the
/// transaction), never by position, so the choice is independent of hash-set iteration order.
#[derive(Clone, Debug, PartialEq, Eq, Serialize, Deserialize)]
pub struct FaultSpec {
    pub kind: CallKind,
    pub sig: String,
    pub nth: u32,
}

#[derive(Default)]
pub struct Ctl {
    /// faults and recording only apply while a simulated transaction runs
    pub active: bool,
    pub calls: Vec<CallRec>,
    pub depth: u32,
    pub fault: Option<FaultSpec>,
    pub fault_fired: u32,
    seen: BTreeMap<(CallKind, String), u32>,
    /// persistent freezes: every send of `denom` to `recipient` fails
    pub frozen: Vec<(String, String)>,
    pub frozen_fired: u32,
    pub panics: u32,
    pub in_contract: u32,
}

thread_local! {
    pub static CTL: RefCell<Ctl> = RefCell::new(Ctl::default());
}

pub fn ctl_begin(fault: Option<FaultSpec>) {
    CTL.with(|c| {
        let mut c = c.borrow_mut();
        c.active = true;
        c.calls.clear();
        c.seen.clear();
        c.depth = 0;
        c.fault = fault;
        c.fault_fired = 0;
        c.frozen_fired = 0;
        c.panics = 0;
    })
}

pub struct TxReport {
    pub calls: Vec<CallRec>,
    pub fault_fired: u32,
    pub frozen_fired: u32,
    pub panics: u32,
}

pub fn ctl_end() -> TxReport {
    CTL.with(|c| {
        let mut c = c.borrow_mut();
        c.active = false;
        c.fault = None;
        c.depth = 0;
        TxReport {
            calls: std::mem::take(&mut c.calls),
            fault_fired: c.fault_fired,
            frozen_fired: c.frozen_fired,
            panics: c.panics,
        }
    })
}

pub fn set_frozen(f: Vec<(String, String)>) {
    CTL.with(|c| c.borrow_mut().frozen = f)
}
pub fn get_frozen() -> Vec<(String, String)> {
    CTL.with(|c| c.borrow().frozen.clone())
}

/// Returns true when the call must fail.
fn on_call(kind: CallKind, sig: String) -> bool {
    CTL.with(|c| {
        let mut c = c.borrow_mut();
        if !c.active {
            return false;
        }
        let n = {
            let e = c.seen.entry((kind, sig.clone())).or_insert(0);
            let n = *e;
            *e += 1;
            n
        };
        let hit = match &c.fault {
            Some(f) => f.kind == kind && f.nth == n && f.sig == sig,
            None => false,
        };
        c.calls.push(CallRec { kind, sig });
        if hit {
            c.fault_fired += 1;
        }
        hit
    })
}

fn frozen_hit(denoms: &[cosmwasm_std::Coin], to: &str) -> bool {
    CTL.with(|c| {
        let mut c = c.borrow_mut();
        if !c.active || c.frozen.is_empty() {
            return false;
        }
        let hit = denoms
            .iter()
            .any(|coin| c.frozen.iter().any(|(d, r)| d == &coin.denom && r == to));
        if hit {
            c.frozen_fired += 1;
        }
        hit
    })
}

fn coins_sig(c: &[cosmwasm_std::Coin]) -> String {
    c.iter().map(|c| c.to_string()).collect::<Vec<_>>().join(",")
}

static HOOK: std::sync::Once = std::sync::Once::new();
pub fn install_panic_hook_once() {
    HOOK.call_once(install_panic_hook);
}

pub fn install_panic_hook() {
    std::panic::set_hook(Box::new(|info| {
        let quiet = CTL.with(|c| c.try_borrow().map(|c| c.in_contract > 0).unwrap_or(true));
        if !quiet {
            eprintln!("HARNESS PANIC: {info}");
        }
    }));
}

fn guarded<T>(f: impl FnOnce() -> AnyResult<T>) -> AnyResult<T> {
    CTL.with(|c| c.borrow_mut().in_contract += 1);
    let r = catch_unwind(AssertUnwindSafe(f));
    CTL.with(|c| c.borrow_mut().in_contract -= 1);
    match r {
        Ok(v) => v,
        Err(p) => {
            CTL.with(|c| c.borrow_mut().panics += 1);
            let msg = if let Some(s) = p.downcast_ref::<&str>() {
                s.to_string()
            } else if let Some(s) = p.downcast_ref::<String>() {
                s.clone()
            } else {
                "?".to_string()
            };
            Err(anyhow!("contract panicked (vm trap): {msg}"))
        }
    }
}

// ------------------------------------------------------------------------------------------------
// bank

pub struct FaultyBank {
    pub inner: BankKeeper,
}

impl FaultyBank {
    pub fn new() -> Self {
        FaultyBank { inner: BankKeeper::new() }
    }
}

impl Module for FaultyBank {
    type ExecT = BankMsg;
    type QueryT = BankQuery;
    type SudoT = BankSudo;

    fn execute<ExecC, QueryC>(
        &self,
        api: &dyn Api,
        storage: &mut dyn Storage,
        router: &dyn CosmosRouter<ExecC = ExecC, QueryC = QueryC>,
        block: &BlockInfo,
        sender: Addr,
        msg: BankMsg,
    ) -> AnyResult<AppResponse>
    where
        ExecC: CustomMsg + DeserializeOwned + 'static,
        QueryC: CustomQuery + DeserializeOwned + 'static,
    {
        match &msg {
            BankMsg::Send { to_address, amount } => {
                let sig = format!("{}->{}:{}", sender, to_address, coins_sig(amount));
                if on_call(CallKind::BankSend, sig) {
                    return Err(anyhow!("injected fault: bank send failed"));
                }
                if frozen_hit(amount, to_address) {
                    return Err(anyhow!("injected fault: denom frozen for recipient"));
                }
            }
            BankMsg::Burn { amount } => {
                let sig = format!("{}:{}", sender, coins_sig(amount));
                if on_call(CallKind::BankBurn, sig) {
                    return Err(anyhow!("injected fault: bank burn failed"));
                }
            }
            _ => {}
        }
        self.inner.execute(api, storage, router, block, sender, msg)
    }

    fn query(
        &self,
        api: &dyn Api,
        storage: &dyn Storage,
        querier: &dyn Querier,
        block: &BlockInfo,
        request: BankQuery,
    ) -> AnyResult<Binary> {
        let sig = format!("{:?}", request);
        if on_call(CallKind::BankQuery, sig) {
            return Err(anyhow!("injected fault: bank query failed"));
        }
        self.inner.query(api, storage, querier, block, request)
    }

    fn sudo<ExecC, QueryC>(
        &self,
        api: &dyn Api,
        storage: &mut dyn Storage,
        router: &dyn CosmosRouter<ExecC = ExecC, QueryC = QueryC>,
        block: &BlockInfo,
        msg: BankSudo,
    ) -> AnyResult<AppResponse>
    where
        ExecC: CustomMsg + DeserializeOwned + 'static,
        QueryC: CustomQuery + DeserializeOwned + 'static,
    {
        self.inner.sudo(api, storage, router, block, msg)
    }
}

impl Bank for FaultyBank {}

// ------------------------------------------------------------------------------------------------
// token factory

pub struct FaultyStargate {
    pub inner: StargateMock,
}

impl FaultyStargate {
    pub fn new(fees: Vec<cosmwasm_std::Coin>) -> Self {
        FaultyStargate { inner: StargateMock::new(fees) }
    }
}

fn tf_kind(type_url: &str) -> Option<CallKind> {
    match type_url {
        "/osmosis.tokenfactory.v1beta1.MsgCreateDenom" => Some(CallKind::TfCreateDenom),
        "/osmosis.tokenfactory.v1beta1.MsgMint" => Some(CallKind::TfMint),
        "/osmosis.tokenfactory.v1beta1.MsgBurn" => Some(CallKind::TfBurn),
        _ => None,
    }
}

impl Stargate for FaultyStargate {
    fn execute_any<ExecC, QueryC>(
        &self,
        api: &dyn Api,
        storage: &mut dyn Storage,
        router: &dyn CosmosRouter<ExecC = ExecC, QueryC = QueryC>,
        block: &BlockInfo,
        sender: Addr,
        msg: AnyMsg,
    ) -> AnyResult<AppResponse>
    where
        ExecC: CustomMsg + DeserializeOwned + 'static,
        QueryC: CustomQuery + DeserializeOwned + 'static,
    {
        if let Some(kind) = tf_kind(&msg.type_url) {
            let sig = format!("{}:{}", sender, msg.value.to_base64());
            if on_call(kind, sig) {
                return Err(anyhow!("injected fault: token factory {} failed", msg.type_url));
            }
        }
        // the mock burns the configured fee with a bank message, which fails for an empty fee
        // list; a chain with no denom creation fee simply charges nothing
        if tf_kind(&msg.type_url) == Some(CallKind::TfCreateDenom) && self.inner.fees.is_empty() {
            return Ok(AppResponse::default());
        }
        self.inner.execute_any(api, storage, router, block, sender, msg)
    }

    fn execute_stargate<ExecC, QueryC>(
        &self,
        api: &dyn Api,
        storage: &mut dyn Storage,
        router: &dyn CosmosRouter<ExecC = ExecC, QueryC = QueryC>,
        block: &BlockInfo,
        sender: Addr,
        type_url: String,
        value: Binary,
    ) -> AnyResult<AppResponse>
    where
        ExecC: CustomMsg + DeserializeOwned + 'static,
        QueryC: CustomQuery + DeserializeOwned + 'static,
    {
        if let Some(kind) = tf_kind(&type_url) {
            let sig = format!("{}:{}", sender, value.to_base64());
            if on_call(kind, sig) {
                return Err(anyhow!("injected fault: token factory {} failed", type_url));
            }
        }
        self.inner
            .execute_stargate(api, storage, router, block, sender, type_url, value)
    }

    fn query_stargate(
        &self,
        api: &dyn Api,
        storage: &dyn Storage,
        querier: &dyn Querier,
        block: &BlockInfo,
        path: String,
        data: Binary,
    ) -> AnyResult<Binary> {
        if on_call(CallKind::TfQuery, path.clone()) {
            return Err(anyhow!("injected fault: token factory query failed"));
        }
        self.inner.query_stargate(api, storage, querier, block, path, data)
    }

    fn query_grpc(
        &self,
        api: &dyn Api,
        storage: &dyn Storage,
        querier: &dyn Querier,
        block: &BlockInfo,
        request: GrpcQuery,
    ) -> AnyResult<Binary> {
        if on_call(CallKind::TfQuery, request.path.clone()) {
            return Err(anyhow!("injected fault: token factory query failed"));
        }
        self.inner.query_grpc(api, storage, querier, block, request)
    }
}

// ------------------------------------------------------------------------------------------------
// wasm

pub struct FaultyWasm {
    pub inner: WasmKeeper<Empty, Empty>,
}

impl FaultyWasm {
    pub fn new() -> Self {
        FaultyWasm { inner: WasmKeeper::default() }
    }
}

impl Wasm<Empty, Empty> for FaultyWasm {
    fn execute(
        &self,
        api: &dyn Api,
        storage: &mut dyn Storage,
        router: &dyn CosmosRouter<ExecC = Empty, QueryC = Empty>,
        block: &BlockInfo,
        sender: Addr,
        msg: WasmMsg,
    ) -> AnyResult<AppResponse> {
        let depth = CTL.with(|c| c.borrow().depth);
        if depth >= 1 {
            if let WasmMsg::Execute { contract_addr, msg: m, funds } = &msg {
                let sig = format!(
                    "{}->{}:{}:{}",
                    sender,
                    contract_addr,
                    String::from_utf8_lossy(m.as_slice()),
                    coins_sig(funds)
                );
                if on_call(CallKind::WasmExec, sig) {
                    return Err(anyhow!("injected fault: contract call failed"));
                }
            }
        }
        CTL.with(|c| c.borrow_mut().depth = depth + 1);
        // A panic is a VM trap of this one contract call: the caller sees a failed sub-message.
        let r = guarded(|| self.inner.execute(api, storage, router, block, sender, msg));
        CTL.with(|c| c.borrow_mut().depth = depth);
        r
    }

    fn query(
        &self,
        api: &dyn Api,
        storage: &dyn Storage,
        querier: &dyn Querier,
        block: &BlockInfo,
        request: WasmQuery,
    ) -> AnyResult<Binary> {
        if let WasmQuery::Smart { contract_addr, msg } = &request {
            let sig = format!("{}:{}", contract_addr, String::from_utf8_lossy(msg.as_slice()));
            if on_call(CallKind::WasmQuery, sig) {
                return Err(anyhow!("injected fault: contract query failed"));
            }
        }
        guarded(|| self.inner.query(api, storage, querier, block, request))
    }

    fn sudo(
        &self,
        api: &dyn Api,
        storage: &mut dyn Storage,
        router: &dyn CosmosRouter<ExecC = Empty, QueryC = Empty>,
        block: &BlockInfo,
        msg: WasmSudo,
    ) -> AnyResult<AppResponse> {
        self.inner.sudo(api, storage, router, block, msg)
    }

    fn store_code(&mut self, creator: Addr, code: Box<dyn Contract<Empty, Empty>>) -> u64 {
        self.inner.store_code(creator, code)
    }

    fn store_code_with_id(
        &mut self,
        creator: Addr,
        code_id: u64,
        code: Box<dyn Contract<Empty, Empty>>,
    ) -> AnyResult<u64> {
        self.inner.store_code_with_id(creator, code_id, code)
    }

    fn duplicate_code(&mut self, code_id: u64) -> AnyResult<u64> {
        self.inner.duplicate_code(code_id)
    }

    fn contract_data(&self, storage: &dyn Storage, address: &Addr) -> AnyResult<ContractData> {
        self.inner.contract_data(storage, address)
    }

    fn dump_wasm_raw(&self, storage: &dyn Storage, address: &Addr) -> Vec<Record> {
        self.inner.dump_wasm_raw(storage, address)
    }
}
