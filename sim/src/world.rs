//! The simulated chain: real contracts from /repo on a cw-multi-test router, behind the seams.

use std::collections::BTreeMap;

use anyhow::Result as AnyResult;
use cosmwasm_std::{
    coin, to_json_binary, Addr, BlockInfo, Coin, CosmosMsg, Decimal, Empty, Order, Timestamp,
    Uint128, Uint64, WasmMsg,
};
use cw_multi_test::{
    App, AppBuilder, AppResponse, Contract, ContractWrapper, DistributionKeeper, Executor,
    FailingModule, GovFailingModule, IbcFailingModule, MockApiBech32, StakeKeeper,
};
use mantra_dex_std::epoch_manager::EpochConfig;
use mantra_dex_std::farm_manager::{Farm, Position};
use mantra_dex_std::pool_manager::{PoolInfoResponse, PoolsResponse};
use serde::{Deserialize, Serialize};

use crate::seams::*;

pub type SimApp = App<
    FaultyBank,
    MockApiBech32,
    SimStorage,
    FailingModule<Empty, Empty, Empty>,
    FaultyWasm,
    StakeKeeper,
    DistributionKeeper,
    IbcFailingModule,
    GovFailingModule,
    FaultyStargate,
>;

fn contract_pool_manager() -> Box<dyn Contract<Empty>> {
    Box::new(
        ContractWrapper::new_with_empty(
            pool_manager::contract::execute,
            pool_manager::contract::instantiate,
            pool_manager::contract::query,
        )
        .with_reply(pool_manager::contract::reply),
    )
}
fn contract_fee_collector() -> Box<dyn Contract<Empty>> {
    Box::new(ContractWrapper::new(
        fee_collector::contract::execute,
        fee_collector::contract::instantiate,
        fee_collector::contract::query,
    ))
}
fn contract_epoch_manager() -> Box<dyn Contract<Empty>> {
    Box::new(ContractWrapper::new(
        epoch_manager::contract::execute,
        epoch_manager::contract::instantiate,
        epoch_manager::contract::query,
    ))
}
fn contract_farm_manager() -> Box<dyn Contract<Empty>> {
    Box::new(
        ContractWrapper::new(
            farm_manager::contract::execute,
            farm_manager::contract::instantiate,
            farm_manager::contract::query,
        )
        .with_reply(farm_manager::contract::reply),
    )
}

#[derive(Clone, Debug, Serialize, Deserialize, PartialEq)]
pub struct FarmCfg {
    pub create_farm_fee: Coin,
    pub max_concurrent_farms: u32,
    pub max_farm_epoch_buffer: u32,
    pub min_unlocking_duration: u64,
    pub max_unlocking_duration: u64,
    pub farm_expiration_time: u64,
    pub emergency_unlock_penalty: Decimal,
}

#[derive(Clone, Debug, Serialize, Deserialize, PartialEq)]
pub struct WorldCfg {
    pub start_time: u64,
    pub epoch_duration: u64,
    /// genesis of the epoch manager = start_time + genesis_offset
    pub genesis_offset: u64,
    pub tf_fees: Vec<Coin>,
    pub pool_creation_fee: Coin,
    pub farm: FarmCfg,
    pub n_users: usize,
    /// base denoms with the decimals the generators use for them
    pub denoms: Vec<(String, u8)>,
    /// initial balance per user and base denom
    pub init_balance: Vec<u128>,
}

#[derive(Clone, Debug)]
pub struct Addrs {
    pub owner: Addr,
    pub owner2: Addr,
    pub stranger: Addr,
    pub users: Vec<Addr>,
    pub em: Addr,
    pub fc: Addr,
    pub fc2: Addr,
    pub fm: Addr,
    pub pm: Addr,
    /// plain accounts used as alternative configuration targets
    pub alt: Vec<Addr>,
}

impl Addrs {
    pub fn name(&self, a: &str) -> String {
        if a == self.owner.as_str() {
            return "owner".into();
        }
        if a == self.owner2.as_str() {
            return "owner2".into();
        }
        if a == self.stranger.as_str() {
            return "stranger".into();
        }
        if a == self.em.as_str() {
            return "epoch_manager".into();
        }
        if a == self.fc.as_str() {
            return "fee_collector".into();
        }
        if a == self.fc2.as_str() {
            return "fee_collector2".into();
        }
        if a == self.fm.as_str() {
            return "farm_manager".into();
        }
        if a == self.pm.as_str() {
            return "pool_manager".into();
        }
        for (i, u) in self.users.iter().enumerate() {
            if a == u.as_str() {
                return format!("user{i}");
            }
        }
        for (i, u) in self.alt.iter().enumerate() {
            if a == u.as_str() {
                return format!("alt{i}");
            }
        }
        a.to_string()
    }
}

#[derive(Clone)]
pub struct Snap {
    pub storage: SimStorage,
    pub block: BlockInfo,
    pub frozen: Vec<(String, String)>,
    pub nanos: u64,
}

pub struct TxOut {
    pub res: AnyResult<AppResponse>,
    pub report: TxReport,
}

impl TxOut {
    pub fn ok(&self) -> bool {
        self.res.is_ok()
    }
    pub fn err_text(&self) -> String {
        match &self.res {
            Ok(_) => String::new(),
            Err(e) => format!("{:#}", e),
        }
    }
    /// all wasm event attributes (key, value) in order
    pub fn attrs(&self) -> Vec<(String, String)> {
        match &self.res {
            Ok(r) => r
                .events
                .iter()
                .filter(|e| e.ty == "wasm")
                .flat_map(|e| e.attributes.iter().map(|a| (a.key.clone(), a.value.clone())))
                .collect(),
            Err(_) => vec![],
        }
    }
    pub fn attr(&self, key: &str) -> Option<String> {
        self.attrs().into_iter().find(|(k, _)| k == key).map(|(_, v)| v)
    }
}

pub type Balances = BTreeMap<String, BTreeMap<String, u128>>;

pub struct World {
    pub app: SimApp,
    pub cfg: WorldCfg,
    pub a: Addrs,
    /// sub-second part of the block time (blocks on a live chain do not land on whole seconds)
    pub nanos: u64,
}

const BANK_PREFIX: &[u8] = b"\x00\x04bank\x00\x08balances";

impl World {
    pub fn new(cfg: &WorldCfg) -> World {
        let api = MockApiBech32::new("mantra");
        let owner = api.addr_make("owner");
        let owner2 = api.addr_make("owner2");
        let stranger = api.addr_make("stranger");
        let users: Vec<Addr> = (0..cfg.n_users).map(|i| api.addr_make(&format!("user{i}"))).collect();
        let alt: Vec<Addr> = (0..3).map(|i| api.addr_make(&format!("alt{i}"))).collect();

        let mut init: Vec<(Addr, Vec<Coin>)> = vec![];
        let mk = |mult: u128| -> Vec<Coin> {
            cfg.denoms
                .iter()
                .zip(cfg.init_balance.iter())
                .filter(|(_, b)| **b > 0)
                .map(|((d, _), b)| coin(b.saturating_mul(mult), d.clone()))
                .collect()
        };
        for u in users.iter() {
            init.push((u.clone(), mk(1)));
        }
        init.push((owner.clone(), mk(1)));
        init.push((owner2.clone(), mk(1)));
        init.push((stranger.clone(), mk(1)));

        let mut app: SimApp = AppBuilder::new()
            .with_api(api)
            .with_wasm(FaultyWasm::new())
            .with_bank(FaultyBank::new())
            .with_stargate(FaultyStargate::new(cfg.tf_fees.clone()))
            .with_storage(SimStorage::default())
            .build(|router, _api, storage| {
                for (acc, amt) in init {
                    if !amt.is_empty() {
                        router.bank.inner.init_balance(storage, &acc, amt).unwrap();
                    }
                }
            });

        let mut block = app.block_info();
        block.time = Timestamp::from_seconds(cfg.start_time);
        block.height = 1000;
        app.set_block(block);

        let em_id = app.store_code(contract_epoch_manager());
        let fc_id = app.store_code(contract_fee_collector());
        let fm_id = app.store_code(contract_farm_manager());
        let pm_id = app.store_code(contract_pool_manager());

        let em = app
            .instantiate_contract(
                em_id,
                owner.clone(),
                &mantra_dex_std::epoch_manager::InstantiateMsg {
                    owner: owner.to_string(),
                    epoch_config: EpochConfig {
                        duration: Uint64::new(cfg.epoch_duration),
                        genesis_epoch: Uint64::new(cfg.start_time + cfg.genesis_offset),
                    },
                },
                &[],
                "epoch manager",
                None,
            )
            .expect("instantiate epoch manager");
        let fc = app
            .instantiate_contract(
                fc_id,
                owner.clone(),
                &mantra_dex_std::fee_collector::InstantiateMsg {},
                &[],
                "fee collector",
                None,
            )
            .expect("instantiate fee collector");
        let fc2 = app
            .instantiate_contract(
                fc_id,
                owner.clone(),
                &mantra_dex_std::fee_collector::InstantiateMsg {},
                &[],
                "fee collector 2",
                None,
            )
            .expect("instantiate fee collector 2");
        let fm = app
            .instantiate_contract(
                fm_id,
                owner.clone(),
                &mantra_dex_std::farm_manager::InstantiateMsg {
                    owner: owner.to_string(),
                    epoch_manager_addr: em.to_string(),
                    fee_collector_addr: fc.to_string(),
                    pool_manager_addr: "".to_string(),
                    create_farm_fee: cfg.farm.create_farm_fee.clone(),
                    max_concurrent_farms: cfg.farm.max_concurrent_farms,
                    max_farm_epoch_buffer: cfg.farm.max_farm_epoch_buffer,
                    min_unlocking_duration: cfg.farm.min_unlocking_duration,
                    max_unlocking_duration: cfg.farm.max_unlocking_duration,
                    farm_expiration_time: cfg.farm.farm_expiration_time,
                    emergency_unlock_penalty: cfg.farm.emergency_unlock_penalty,
                },
                &[],
                "farm manager",
                None,
            )
            .expect("instantiate farm manager");
        let pm = app
            .instantiate_contract(
                pm_id,
                owner.clone(),
                &mantra_dex_std::pool_manager::InstantiateMsg {
                    fee_collector_addr: fc.to_string(),
                    farm_manager_addr: fm.to_string(),
                    pool_creation_fee: cfg.pool_creation_fee.clone(),
                },
                &[],
                "pool manager",
                None,
            )
            .expect("instantiate pool manager");
        app.execute_contract(
            owner.clone(),
            fm.clone(),
            &mantra_dex_std::farm_manager::ExecuteMsg::UpdateConfig {
                fee_collector_addr: None,
                epoch_manager_addr: None,
                pool_manager_addr: Some(pm.to_string()),
                create_farm_fee: None,
                max_concurrent_farms: None,
                max_farm_epoch_buffer: None,
                min_unlocking_duration: None,
                max_unlocking_duration: None,
                farm_expiration_time: None,
                emergency_unlock_penalty: None,
            },
            &[],
        )
        .expect("set pool manager on farm manager");

        set_frozen(vec![]);
        World {
            app,
            cfg: cfg.clone(),
            a: Addrs { owner, owner2, stranger, users, em, fc, fc2, fm, pm, alt },
            nanos: 0,
        }
    }

    // ---------------------------------------------------------------- time
    pub fn now(&self) -> u64 {
        self.app.block_info().time.seconds()
    }
    pub fn advance(&mut self, dt: u64) {
        let mut b = self.app.block_info();
        let t = b.time.seconds().saturating_add(dt);
        b.time = Self::ts(t, self.nanos);
        b.height += 1;
        self.app.set_block(b);
    }
    fn ts(secs: u64, nanos: u64) -> Timestamp {
        // stay representable: seconds * 1e9 + nanos must fit in u64
        let max_s = u64::MAX / 1_000_000_000;
        if secs >= max_s {
            Timestamp::from_seconds(max_s)
        } else {
            Timestamp::from_seconds(secs).plus_nanos(nanos.min(999_999_999))
        }
    }
    pub fn set_nanos(&mut self, ns: u64) {
        self.nanos = ns.min(999_999_999);
        let mut b = self.app.block_info();
        b.time = Self::ts(b.time.seconds(), self.nanos);
        self.app.set_block(b);
    }
    pub fn set_time(&mut self, t: u64) {
        let mut b = self.app.block_info();
        b.time = Self::ts(t, self.nanos);
        b.height += 1;
        self.app.set_block(b);
    }
    pub fn genesis(&self) -> u64 {
        self.cfg.start_time + self.cfg.genesis_offset
    }

    // ---------------------------------------------------------------- forks
    pub fn snapshot(&self) -> Snap {
        Snap {
            storage: self.app.storage().clone(),
            block: self.app.block_info(),
            frozen: get_frozen(),
            nanos: self.nanos,
        }
    }
    pub fn restore(&mut self, s: &Snap) {
        *self.app.storage_mut() = s.storage.clone();
        self.app.set_block(s.block.clone());
        set_frozen(s.frozen.clone());
        self.nanos = s.nanos;
    }
    pub fn storage_eq(&self, s: &Snap) -> bool {
        self.app.storage().map == s.storage.map
    }
    /// keys whose value differs between current storage and snapshot (for diagnostics)
    pub fn storage_diff(&self, s: &Snap) -> Vec<String> {
        let cur = &self.app.storage().map;
        let mut out = vec![];
        for (k, v) in cur.iter() {
            match s.storage.map.get(k) {
                Some(v2) if v2 == v => {}
                _ => out.push(String::from_utf8_lossy(k).to_string()),
            }
        }
        for k in s.storage.map.keys() {
            if !cur.contains_key(k) {
                out.push(format!("-{}", String::from_utf8_lossy(k)));
            }
        }
        out
    }

    // ---------------------------------------------------------------- transactions
    pub fn exec_raw(
        &mut self,
        sender: &Addr,
        contract: &Addr,
        msg_json: Vec<u8>,
        funds: &[Coin],
        fault: Option<FaultSpec>,
    ) -> TxOut {
        ctl_begin(fault);
        let res = self.app.execute(
            sender.clone(),
            CosmosMsg::Wasm(WasmMsg::Execute {
                contract_addr: contract.to_string(),
                msg: msg_json.into(),
                funds: funds.to_vec(),
            }),
        );
        let report = ctl_end();
        TxOut { res, report }
    }
    pub fn exec<T: Serialize>(
        &mut self,
        sender: &Addr,
        contract: &Addr,
        msg: &T,
        funds: &[Coin],
        fault: Option<FaultSpec>,
    ) -> TxOut {
        let bin = to_json_binary(msg).expect("serialize msg");
        self.exec_raw(sender, contract, bin.to_vec(), funds, fault)
    }
    pub fn bank_send(&mut self, from: &Addr, to: &Addr, coins: &[Coin]) -> TxOut {
        ctl_begin(None);
        let res = self.app.send_tokens(from.clone(), to.clone(), coins);
        let report = ctl_end();
        TxOut { res, report }
    }
    /// faucet: mint coins to an account outside any contract (simulator-only)
    pub fn faucet(&mut self, to: &Addr, coins: Vec<Coin>) {
        self.app
            .sudo(cw_multi_test::SudoMsg::Bank(cw_multi_test::BankSudo::Mint {
                to_address: to.to_string(),
                amount: coins,
            }))
            .expect("faucet");
    }

    // ---------------------------------------------------------------- observation
    pub fn balances(&self) -> Balances {
        let mut out = Balances::new();
        let map = &self.app.storage().map;
        for (k, v) in map.range(BANK_PREFIX.to_vec()..) {
            if !k.starts_with(BANK_PREFIX) {
                break;
            }
            let addr = String::from_utf8_lossy(&k[BANK_PREFIX.len()..]).to_string();
            let coins: Vec<Coin> = cosmwasm_std::from_json(v).expect("bank balance json");
            let e = out.entry(addr).or_default();
            for c in coins {
                if !c.amount.is_zero() {
                    e.insert(c.denom, c.amount.u128());
                }
            }
        }
        out.retain(|_, m| !m.is_empty());
        out
    }
    pub fn pools(&self) -> Vec<PoolInfoResponse> {
        let mut out: Vec<PoolInfoResponse> = vec![];
        let mut start_after: Option<String> = None;
        loop {
            let r: PoolsResponse = self
                .app
                .wrap()
                .query_wasm_smart(
                    self.a.pm.to_string(),
                    &mantra_dex_std::pool_manager::QueryMsg::Pools {
                        pool_identifier: None,
                        start_after: start_after.clone(),
                        limit: Some(100),
                    },
                )
                .expect("Pools query");
            let n = r.pools.len();
            if n == 0 {
                break;
            }
            start_after = Some(r.pools.last().unwrap().pool_info.pool_identifier.clone());
            out.extend(r.pools);
            if n < 100 {
                break;
            }
        }
        out
    }
    /// identifiers of all pools as stored (raw read of the pool manager's map)
    pub fn pool_ids_raw(&self) -> Vec<String> {
        let st = self.app.contract_storage(&self.a.pm);
        pool_manager::state::POOLS.keys(&*st, None, None, Order::Ascending).map(|r| r.expect("pool key")).collect()
    }
    /// all pools through the public query in pages of `limit` (None: the default page size)
    pub fn pools_via_query(&self, limit: Option<u32>) -> Result<Vec<PoolInfoResponse>, String> {
        let mut out: Vec<PoolInfoResponse> = vec![];
        let mut start_after: Option<String> = None;
        for _ in 0..80 {
            let r: Result<PoolsResponse, _> = self.app.wrap().query_wasm_smart(
                self.a.pm.to_string(),
                &mantra_dex_std::pool_manager::QueryMsg::Pools { pool_identifier: None, start_after: start_after.clone(), limit },
            );
            let r = r.map_err(|e| e.to_string())?;
            let n = r.pools.len();
            if n == 0 {
                break;
            }
            start_after = Some(r.pools.last().unwrap().pool_info.pool_identifier.clone());
            out.extend(r.pools);
            if (n as u32) < limit.unwrap_or(10) {
                break;
            }
        }
        Ok(out)
    }
    /// all positions through the unfiltered public listing in pages of `limit`
    pub fn positions_listing_via_query(&self, filter_by: Option<mantra_dex_std::farm_manager::PositionsBy>, limit: u32) -> Result<Vec<Position>, String> {
        let mut out: Vec<Position> = vec![];
        let mut start_after: Option<String> = None;
        for _ in 0..80 {
            let r: Result<mantra_dex_std::farm_manager::PositionsResponse, _> = self.app.wrap().query_wasm_smart(
                self.a.fm.to_string(),
                &mantra_dex_std::farm_manager::QueryMsg::Positions { filter_by: filter_by.clone(), open_state: None, start_after: start_after.clone(), limit: Some(limit) },
            );
            let r = r.map_err(|e| e.to_string())?;
            let n = r.positions.len();
            if n == 0 {
                break;
            }
            start_after = Some(r.positions.last().unwrap().identifier.clone());
            out.extend(r.positions);
            if (n as u32) < limit {
                break;
            }
        }
        Ok(out)
    }
    pub fn farms(&self) -> Vec<Farm> {
        let st = self.app.contract_storage(&self.a.fm);
        farm_manager::state::FARMS
            .range(&*st, None, None, Order::Ascending)
            .map(|r| r.expect("farm").1)
            .collect()
    }
    /// all farms through the paginated public query (page size `limit`)
    pub fn farms_via_query(&self, limit: u32) -> Result<Vec<Farm>, String> {
        self.farms_via_query_by(None, limit)
    }
    /// the same, restricted by a filter of the public query
    pub fn farms_via_query_by(&self, filter_by: Option<mantra_dex_std::farm_manager::FarmsBy>, limit: u32) -> Result<Vec<Farm>, String> {
        let mut out: Vec<Farm> = vec![];
        let mut start_after: Option<String> = None;
        for _ in 0..200 {
            let r: Result<mantra_dex_std::farm_manager::FarmsResponse, _> = self.app.wrap().query_wasm_smart(
                self.a.fm.to_string(),
                &mantra_dex_std::farm_manager::QueryMsg::Farms { filter_by: filter_by.clone(), start_after: start_after.clone(), limit: Some(limit) },
            );
            let r = r.map_err(|e| e.to_string())?;
            let n = r.farms.len();
            if n == 0 {
                break;
            }
            start_after = Some(r.farms.last().unwrap().identifier.clone());
            out.extend(r.farms);
            if (n as u32) < limit {
                break;
            }
        }
        Ok(out)
    }
    /// positions of one receiver through the public query (at most 10 open + 10 closed exist)
    pub fn positions_via_query(&self, receiver: &str, open: bool) -> Result<Vec<Position>, String> {
        let r: Result<mantra_dex_std::farm_manager::PositionsResponse, _> = self.app.wrap().query_wasm_smart(
            self.a.fm.to_string(),
            &mantra_dex_std::farm_manager::QueryMsg::Positions {
                filter_by: Some(mantra_dex_std::farm_manager::PositionsBy::Receiver(receiver.to_string())),
                open_state: Some(open),
                start_after: None,
                limit: Some(10),
            },
        );
        r.map(|x| x.positions).map_err(|e| e.to_string())
    }
    pub fn positions(&self) -> Vec<Position> {
        let st = self.app.contract_storage(&self.a.fm);
        farm_manager::state::POSITIONS
            .range(&*st, None, None, Order::Ascending)
            .map(|r| r.expect("position").1)
            .collect()
    }
    /// raw weight snapshots: (address, lp denom, epoch) -> weight
    pub fn weights(&self) -> BTreeMap<(String, String, u64), u128> {
        let st = self.app.contract_storage(&self.a.fm);
        farm_manager::state::LP_WEIGHT_HISTORY
            .range(&*st, None, None, Order::Ascending)
            .map(|r| {
                let ((a, d, e), w) = r.expect("weight");
                ((a.to_string(), d, e), w.u128())
            })
            .collect()
    }
    pub fn last_claimed(&self) -> BTreeMap<String, u64> {
        let st = self.app.contract_storage(&self.a.fm);
        farm_manager::state::LAST_CLAIMED_EPOCH
            .range(&*st, None, None, Order::Ascending)
            .map(|r| {
                let (a, e) = r.expect("last claimed");
                (a.to_string(), e)
            })
            .collect()
    }
    pub fn pm_config(&self) -> mantra_dex_std::pool_manager::Config {
        self.app
            .wrap()
            .query_wasm_smart(self.a.pm.to_string(), &mantra_dex_std::pool_manager::QueryMsg::Config {})
            .expect("pm config")
    }
    pub fn fm_config(&self) -> mantra_dex_std::farm_manager::Config {
        self.app
            .wrap()
            .query_wasm_smart(self.a.fm.to_string(), &mantra_dex_std::farm_manager::QueryMsg::Config {})
            .expect("fm config")
    }
    pub fn em_config(&self, em: &Addr) -> mantra_dex_std::epoch_manager::Config {
        self.app
            .wrap()
            .query_wasm_smart(em.to_string(), &mantra_dex_std::epoch_manager::QueryMsg::Config {})
            .expect("em config")
    }
    pub fn ownership(&self, contract: &Addr) -> cw_ownable::Ownership<Addr> {
        // all four contracts answer {"ownership":{}}
        self.app
            .wrap()
            .query_wasm_smart(contract.to_string(), &mantra_dex_std::fee_collector::QueryMsg::Ownership {})
            .expect("ownership")
    }
    /// current epoch id according to the epoch manager the farm manager is configured with;
    /// None before genesis / on error
    pub fn current_epoch(&self) -> Option<u64> {
        let em = self.fm_config().epoch_manager_addr;
        let r: Result<mantra_dex_std::epoch_manager::EpochResponse, _> = self
            .app
            .wrap()
            .query_wasm_smart(em.to_string(), &mantra_dex_std::epoch_manager::QueryMsg::CurrentEpoch {});
        r.ok().map(|e| e.epoch.id)
    }
    pub fn lp_denom(&self, pool_id: &str) -> String {
        format!("factory/{}/{}.LP", self.a.pm, pool_id)
    }
}

pub fn bal(b: &Balances, addr: &str, denom: &str) -> u128 {
    b.get(addr).and_then(|m| m.get(denom)).copied().unwrap_or(0)
}

pub fn supply(b: &Balances, denom: &str) -> u128 {
    b.values().map(|m| m.get(denom).copied().unwrap_or(0)).sum()
}

pub fn u(x: Uint128) -> u128 {
    x.u128()
}
