#!/bin/bash
# ./regress_mut.sh <lane-count> <lane-index> [ids...]  re-evaluate seeded changes (own property's quick tier) with the
# current machinery, in scratch copies; results -> /tmp/regress.<lane>.txt  (line: <id> <prop> rc=<n> <monitor>)
N="$1"; I="$2"; shift 2
cd /verif
IDS=("$@"); [ ${#IDS[@]} -eq 0 ] && IDS=($(ls seeded | grep -E '^C[0-9]+-[a-z]$'))
OUT=/tmp/regress.$I.txt; : > $OUT
k=0
for id in "${IDS[@]}"; do
  k=$((k+1)); [ $((k % N)) -eq $((I % N)) ] || continue
  P=${id%-*}
  E=$(EV_DIR=/tmp/evr$I ./evalmut.sh seeded/$id/patch.diff $P 2>&1)
  RC=$(echo "$E" | grep -oE "EVAL prop=$P rc=[0-9]+" | grep -oE "[0-9]+$")
  MON=$(echo "$E" | grep -oE "monitor=[A-Za-z0-9_.]+" | head -1)
  [ -z "$MON" ] && MON=$(echo "$E" | grep -oE "C[0-9]{2}\.[a-z_0-9]+" | head -1)
  echo "$id $P rc=$RC $MON" >> $OUT
done
echo "lane $I done" >> $OUT
