#!/bin/bash
# ./evalmut.sh <patch.diff> <PROP> [runs]   evaluate one seeded change in a scratch copy
# (scratch worktree of /repo HEAD + copy of /verif/sim pointing at it; /repo itself is not touched)
set -u
PATCH="$(readlink -f "$1")"; PROP="$2"; RUNS="${3:-}"
EV=${EV_DIR:-/tmp/ev}
mkdir -p $EV
if [ ! -d $EV/repo ]; then git -C /repo worktree add -q --detach $EV/repo HEAD || exit 2; fi
git -C $EV/repo checkout -q --detach "$(git -C /repo rev-parse HEAD)" 2>/dev/null
git -C $EV/repo checkout -q -- . ; git -C $EV/repo clean -fdq -e target
mkdir -p $EV/verif
rsync -a --delete --exclude target --exclude .git /verif/sim/ $EV/verif/sim/
sed -i "s#/repo/contracts#$EV/repo/contracts#g" $EV/verif/sim/Cargo.toml
cp /verif/check /verif/known_findings.json $EV/verif/; rsync -a --delete /verif/known/ $EV/verif/known/
( cd $EV/repo && git apply "$PATCH" ) || { echo "EVAL patch does not apply"; exit 2; }
cd $EV/verif
if [ -n "$RUNS" ]; then export VERIF_RUNS=$RUNS; fi
OUT=$(./check $PROP quick 2>&1); RC=$?
echo "$OUT" | grep -E "VIOLATION|violation candidate|minimised|^runs=|harness|KNOWN" | cut -c1-700
echo "EVAL prop=$PROP rc=$RC patch=$PATCH"
git -C $EV/repo checkout -q -- .
exit $RC
