#!/bin/bash
# ./sweep.sh <runs> <seed>...   run every claimed check with the given seeds; report alarms
# (used through `vp run` for long false-alarm hunts; results are not evidence)
cd "$(dirname "$0")"
RUNS="$1"; shift
PROPS=$(python3 -c "import json;print(' '.join(c['property_id'] for c in json.load(open('MANIFEST.json'))['checks']))")
[ -n "${SWEEP_PROPS:-}" ] && PROPS="$SWEEP_PROPS"
for S in "$@"; do
  for P in $PROPS; do
    OUT=$(VERIF_SEED=$S VERIF_RUNS=$RUNS ./check $P quick 2>&1); RC=$?
    echo "seed=$S $P rc=$RC $(echo "$OUT" | grep -E '^runs=' | cut -c1-160)"
    if [ $RC -ne 0 ]; then echo "$OUT" | grep -E "VIOLATION|violation candidate|minimised|harness" | cut -c1-1500; fi
  done
done
echo SWEEP-DONE
